"""djsim driver: sweeps, violation pipeline (gate, minimise, replay), evidence."""
import json
import os
import subprocess
import sys
import resource
import threading
import time

import verif as V

VERIF = V.VERIF
EVID = os.environ.get("VERIF_EVIDENCE_DIR") or os.path.join(VERIF, "evidence")
REPLAYS = os.environ.get("VERIF_REPLAY_DIR") or os.path.join(VERIF, "replays")
KNOWN = os.path.join(VERIF, "known_findings.json")

NCPU = os.cpu_count() or 8


def _limits():
    """Workers get a 2 MiB stack: unbounded recursion in the library then overflows within a second or two
    instead of grinding through 8 MiB of frames that each run SQL."""
    try:
        resource.setrlimit(resource.RLIMIT_STACK, (2 * 1024 * 1024, resource.getrlimit(resource.RLIMIT_STACK)[1]))
    except Exception:
        pass

# ---------------------------------------------------------------------------
# Per-property configuration.  Each entry of "quick"/"thorough" is
# (profile, variant, runs).  "relevant" lists probe / op keys that make a run
# count as relevant for the property (non-trivial).
PROPS = {}


def prop(pid, level, quick, thorough, relevant, rule, assumptions=None, crash_owner=False):
    PROPS[pid] = dict(level=level, quick=quick, thorough=thorough, relevant=relevant,
                      rule=rule, assumptions=assumptions or [], crash_owner=crash_owner)


COMMON_ASSUME = [
    "SimDisk (in-memory VFS) stands in for the real file system; SQLite's pager, journal and locking run for real on top of it",
    "clock, random sources, stat/mkdir are stubs owned by the simulator; libdjinterop, sqlite_modern_cpp, system SQLite and zlib run real code",
    "sampling: a clean batch is evidence for the explored plans only",
]

prop("C01", "exploration",
     quick=[("tracks", "fast", 1400), ("tracks", "san", 120), ("tracks_disk_faulty", "fast", 400)],
     thorough=[("tracks", "fast", 60000), ("mixed", "fast", 20000), ("tracks", "san", 4000), ("tracks_disk_faulty", "fast", 20000)],
     relevant=["create_track_ok", "update_ok", "fixed_point_checked"],
     rule="seeded histories of create_track/update/rewrite/setters/reload over 1-4 tracks on a random schema; "
          "a run is non-trivial if at least one snapshot write was accepted and round-trip checked, and distinct if its "
          "plan digest is new and it reached an observation hash no earlier run reached")
prop("C06", "exploration",
     quick=[("tracks", "fast", 1400), ("mixed", "fast", 500), ("foreign", "fast", 700), ("foreign1", "fast", 800), ("cross", "fast", 500),
            ("tracks_disk_faulty", "fast", 800)],
     thorough=[("tracks", "fast", 60000), ("mixed", "fast", 30000), ("tracks", "san", 3000), ("foreign", "fast", 40000), ("foreign1", "fast", 40000),
               ("cross", "fast", 30000), ("tracks_disk_faulty", "fast", 30000)],
     relevant=["setter_ok", "foreign_getter_snapshot_checked"],
     rule="seeded histories of the 25 field setters (incl. per-slot cue/loop setters) interleaved over several tracks; "
          "non-trivial = at least one setter accepted and differentially checked against the previous full observation; "
          "distinct = new plan digest reaching a new observation hash")
prop("C07", "exploration",
     quick=[("crates", "fast", 2500), ("mixed", "fast", 400), ("cross", "fast", 500),
            ("crates_disk_faulty", "fast", 500), ("crates2_disk", "fast", 500)],
     thorough=[("crates", "fast", 120000), ("mixed", "fast", 30000), ("crates", "san", 4000), ("cross", "fast", 30000),
               ("crates_disk_faulty", "fast", 20000), ("crates2_disk", "fast", 20000)],
     relevant=["op:create_sub", "op:set_parent", "op:remove_crate", "op:set_name", "op:create_root"],
     rule="seeded crate-operation histories (create root/sub[_after], rename, re-parent incl. cycles, remove) on small forests; "
          "every query is compared with a forest model after each step; non-trivial = at least one crate operation executed; "
          "distinct = new plan digest reaching a new observation hash")
prop("C08", "exploration",
     quick=[("members", "fast", 2200), ("mixed", "fast", 400), ("cross", "fast", 500),
            ("members_disk_faulty", "fast", 600), ("members2_disk", "fast", 400)],
     thorough=[("members", "fast", 100000), ("mixed", "fast", 30000), ("members", "san", 4000), ("cross", "fast", 30000),
               ("members_disk_faulty", "fast", 20000), ("members2_disk", "fast", 20000)],
     relevant=["op:add_track", "op:remove_from", "op:clear"],
     rule="seeded membership histories with an id-skew prologue so that track, crate and membership-row ids diverge; "
          "crate.tracks()/containing_crates() compared with a relation model after each step; non-trivial = at least one "
          "membership operation executed; distinct = new plan digest reaching a new observation hash")
prop("C09", "exploration",
     quick=[("crates2", "fast", 2200), ("members2", "fast", 600), ("table", "fast", 1200), ("cross", "fast", 500),
            ("members2_disk_faulty", "fast", 600), ("table_disk_faulty", "fast", 400), ("crates2_disk", "fast", 400)],
     thorough=[("crates2", "fast", 100000), ("members2", "fast", 40000), ("crates2", "san", 3000), ("table", "fast", 60000), ("cross", "fast", 30000),
               ("members2_disk_faulty", "fast", 20000), ("table_disk_faulty", "fast", 15000), ("cross_disk_faulty", "fast", 15000), ("crates2_disk", "fast", 20000)],
     relevant=["op:create_sub_after", "op:create_root_after", "op:set_parent", "op:remove_crate", "op:add_track", "op:p_add", "op:p_update",
               "op:e_add", "op:e_remove"],
     rule="2.x-only histories of positioned/un-positioned creates, moves, renames, removals and entity add/remove/clear; "
          "listings compared with a sequence model; non-trivial = at least one order-affecting operation; distinct = new plan "
          "digest reaching a new observation hash")
prop("C10", "exploration",
     quick=[("mixed_disk", "fast", 1200), ("tracks_disk", "fast", 500), ("mixed_disk_faulty", "fast", 600),
            ("cross_disk", "fast", 500), ("table_disk", "fast", 400)],
     thorough=[("mixed_disk", "fast", 60000), ("tracks_disk", "fast", 30000), ("crates_disk", "fast", 30000),
               ("cross_disk", "fast", 30000), ("table_disk", "fast", 20000),
               ("mixed_disk_faulty", "fast", 30000), ("members_disk_faulty", "fast", 15000)],
     relevant=["reload_ok"],
     rule="any workload on an on-disk library with close (handles released in seeded order, optional clock jump) and "
          "load_database at seeded prefixes and at the end; full observation before/after compared; non-trivial = at least one "
          "reload of a non-empty library; distinct = new plan digest reaching a new observation hash")
prop("C16", "exploration",
     quick=[("mixed_pure", "fast", 900), ("tracks_pure", "fast", 300), ("hostile_pure", "fast", 900), ("table_pure", "fast", 300),
            ("mixed_pure_disk", "fast", 400),
            ("corrupt", "fast", 500), ("corruptgrid", "fast", 180), ("detect", "fast", 800)],
     thorough=[("mixed_pure", "fast", 50000), ("tracks_pure", "fast", 20000), ("crates_pure", "fast", 20000), ("hostile_pure", "fast", 40000),
               ("table_pure", "fast", 20000), ("mixed_pure_disk", "fast", 20000),
               ("corrupt", "fast", 20000), ("corruptgrid", "fast", 3600), ("detect", "fast", 40000)],
     relevant=["purity_checked", "detections"],
     rule="in every state reached by the mixed workload the monitor brackets the full block of observing calls with VFS "
          "write/truncate counters, sqlite3_total_changes and the image hash, and repeats the observation with the clock "
          "moved; non-trivial = at least one monitored observation of a non-empty library; distinct = new plan digest reaching "
          "a new observation hash")

prop("C11", "exploration",
     quick=[("mixed_audit", "fast", 900), ("crates_audit", "fast", 700), ("members_audit", "fast", 500), ("table_audit", "fast", 500),
            ("tracks_audit", "fast", 600), ("mixed_disk_audit_faulty", "fast", 500), ("crates_disk_audit_faulty", "fast", 300),
            ("members_disk_audit_faulty", "fast", 300)],
     thorough=[("mixed_audit", "fast", 40000), ("crates_audit", "fast", 40000), ("members_audit", "fast", 30000),
               ("tracks_audit", "fast", 20000), ("table_audit", "fast", 30000), ("mixed_disk_audit_faulty", "fast", 20000),
               ("crates_disk_audit_faulty", "fast", 15000), ("members_disk_audit_faulty", "fast", 15000)],
     relevant=["audits"],
     rule="after every step of the crate/track/membership workloads on an on-disk library an independent auditor opens the raw "
          "SimDisk image through its own SQLite connection: integrity_check, foreign_key_check, verify(), every stored blob decoded "
          "by the independent codec, 1.x path/parent-list/hierarchy encodings vs the model forest, 2.x successor chains, derived "
          "columns, orphan rows; non-trivial = at least one audit of a non-empty library; distinct = new plan digest reaching a new "
          "observation hash")
prop("C02", "exploration",
     quick=[("tracks_audit", "fast", 1200), ("mixed_audit", "fast", 400), ("foreign", "fast", 800), ("foreign1", "fast", 800), ("table_audit", "fast", 700),
            ("tableh_audit", "fast", 300), ("corrupt", "fast", 500)],
     thorough=[("tracks_audit", "fast", 60000), ("mixed_audit", "fast", 20000), ("foreign", "fast", 60000), ("foreign1", "fast", 40000), ("table_audit", "fast", 40000),
               ("tableh_audit", "fast", 20000), ("corrupt", "fast", 20000)],
     relevant=["audits", "foreign_read_back", "table_rows_audited", "restored_cell_read_back"],
     rule="every blob the library stores during the track workloads is read raw by a second SQLite client and decoded by refcodec "
          "(an independent implementation of the Engine layouts): frame (4-byte BE length = inflated length, one complete zlib "
          "stream, loops uncompressed) and every field against the library's own observation; non-trivial = at least one audited "
          "track write; distinct = new plan digest reaching a new observation hash",
     assumptions=["refcodec is independent in code (no libdjinterop call, zlib one-shot API) but was written by the same author from "
                  "the same format description: it pins today's wire format against later coordinated drift"])
prop("C18", "exploration",
     quick=[("table", "fast", 1500)],
     thorough=[("table", "fast", 80000), ("tableh", "fast", 20000), ("table", "san", 3000)],
     relevant=["table_row_checked"],
     rule="2.x-only histories of track_table add/update/get/remove, every per-column getter/setter, accessors naming nonexistent "
          "rows, playlist_table and playlist_entity_table operations, against a row model; rows give every same-typed pair of "
          "columns different values; after every step every row is re-read and compared column by column (all three column-list "
          "ranges 2.18.0 / 2.20.1-2 / >=2.20.3 are sampled); non-trivial = at least one row written and compared; distinct = new plan "
          "digest reaching a new observation hash")
prop("C03", "exploration",
     quick=[("tableh", "fast", 900), ("tracks", "fast", 900), ("table", "fast", 500), ("tableh", "san", 60), ("corrupt", "fast", 600)],
     thorough=[("tableh", "fast", 50000), ("tracks", "fast", 50000), ("table", "fast", 20000), ("tableh", "san", 3000), ("corrupt", "fast", 30000)],
     relevant=["t_add_ok", "t_update_ok", "t_setcol_ok", "codec_roundtrip_checked", "restored_cell_read_back"],
     rule="the five public 2.x blob structs are generated over the statement's domain (every double class incl. -0, inf, NaN, "
          "denormals - compared by bit pattern through to_blob bytes; int edges; labels 0..300 arbitrary bytes; 0..12 entries; large "
          "grids and waveforms; arbitrary extra_data) and pushed through track_table add/update/set -> SimDisk -> get: equal, or "
          "the write threw and nothing was stored; the six 1.x codecs are reached through create_track/update/setters for every "
          "shape a snapshot can express; non-trivial = at least one blob stored and read back; distinct = new plan digest reaching "
          "a new observation hash",
     assumptions=["gap (stated in DESIGN): 1.x codec values no public call can construct (default != adjusted grid, is_adjusted "
                  "combinations) are not generated"])
prop("C14", "fault_enumeration",
     quick=[("atomic", "fast", 510), ("atomic_chain", "fast", 102), ("mixed_disk_faulty", "fast", 600)],
     thorough=[("atomic", "fast", 8000), ("atomic_chain", "fast", 1200), ("atomic", "san", 300), ("mixed_disk_faulty", "fast", 30000),
               ("tracks_disk_faulty", "fast", 15000)],
     relevant=["atomic_pairs"],
     rule="each run = (pre-state S from a seeded fault-free history on an on-disk library, one public mutating call); the call is "
          "dry-run from S, then re-executed from S once per fault position: every statement x {BUSY, ERROR, READONLY} (F1, "
          "exhaustive), every VFS call addressed as (method, file, ordinal) up to 256 (F3), every VM tick up to 256 (F2), up to 64 "
          "SQLite allocations (F4), the second party taking the write lock at every statement boundary (F9), up to 48 (atomic_chain: "
          "128) persistent device faults (F3-persistent: from the addressed VFS call on, that method on that file keeps failing - "
          "or, for SQLITE_FULL, nothing on the disk can grow - until the call returns, also while the library rolls back); then "
          "fault SEQUENCES: 6 (atomic_chain: 40) seeded chains of 2-3 faulted attempts of the same call executed in place on the "
          "same connection without restoring anything, each judged like a single attempt, followed by a fault-free retry that "
          "must succeed, equal the fault-free post-state and survive close + reload; a run is non-trivial if its probe call succeeds fault-free and was enumerated, distinct if its "
          "plan digest is new and it reached a new observation hash",
     assumptions=["F1 models the SQLite error classes that leave the transaction open (BUSY, ERROR/CONSTRAINT-like, READONLY) at the "
                  "statement boundary without executing the statement; for it the state must equal the pre-state exactly",
                  "F2-F4 take SQLite's real error paths; SQLite can report such an error after the commit point (xUnlock failure, "
                  "progress-handler interrupt delivered at statement end), so for them the oracle is all-or-nothing: the state must be "
                  "exactly the pre-state or exactly the fault-free post-state",
                  "the outer loop over (state, call) pairs is sampled; the inner loop over fault positions is exhaustive for F1 and, "
                  "within the stated caps, for F2/F3"])

prop("C15", "exploration",
     quick=[("hostile", "san", 700), ("hostile", "fast", 1200), ("tracks_twice", "fast", 500), ("mixed_twice", "fast", 300),
            ("hostile_twice", "fast", 300), ("tableh", "san", 250), ("foreign", "san", 250),
            ("cross_disk_faulty", "fast", 400), ("mixed_disk_faulty", "san", 150)],
     thorough=[("hostile", "san", 30000), ("hostile", "fast", 60000), ("mixed", "san", 5000), ("tracks", "san", 5000),
               ("tracks_twice", "fast", 30000), ("mixed_twice", "fast", 20000), ("hostile_twice", "fast", 20000), ("table_twice", "fast", 10000),
               ("tableh", "san", 8000), ("table", "san", 8000), ("foreign", "san", 8000),
               ("cross_disk_faulty", "fast", 20000), ("mixed_disk_faulty", "san", 3000)],
     relevant=["hostile_call_threw", "hostile_call_completed", "executed_twice", "table_row_checked", "c04_preservation_checked"],
     rule="hostile-caller histories on all 18 schemas under ASan+UBSan+_GLIBCXX_ASSERTIONS: cue/loop indices -1..9 and extremes, "
          "0..12 cue/loop entries, labels 0..300 bytes incl. NUL and invalid UTF-8, waveform with sample rate/count absent or 0, ids that "
          "never existed or were removed, create_*_after with a crate from another parent/level/removed, odd names, every member of stale "
          "track and crate handles; a run is non-trivial if at least one hostile call was made, distinct if its plan digest is new and it "
          "reached a new observation hash.  A sanitizer report, abort, SIGSEGV/SIGFPE, watchdog or non-std exception is the violation.  "
          "The *_twice profiles execute every plan twice over differently poisoned heap (M_PERTURB) and stack memory and require identical "
          "strict digests (all observations and the final disk image): a difference means the library read indeterminate memory, which "
          "ASan/UBSan cannot see",
     assumptions=["a worker death (sanitizer exit code, signal, wall-clock alarm) is attributed to the run whose BEGIN line was flushed last",
                  "deterministic watchdogs: 4e6 SQLite VM ticks per call; inflate no-progress detector; 60 s alarm as backstop only",
                  "once a hostile call whose effect the statement leaves open has completed (e.g. add_track of a nonexistent id), the forest/"
                  "membership model is switched off for the rest of the run; only the C15 oracles continue"],
     crash_owner=True)

prop("C05", "exploration",
     quick=[("corrupt", "san", 600), ("corrupt", "fast", 1200), ("corruptgrid", "san", 180), ("corruptgrid", "fast", 540)],
     thorough=[("corrupt", "san", 40000), ("corrupt", "fast", 120000), ("corruptgrid", "san", 5400), ("corruptgrid", "fast", 27000)],
     relevant=["corruptions", "page_corruptions"],
     rule="storage-fault histories on all 18 schemas under ASan+UBSan+_GLIBCXX_ASSERTIONS: a library with fully analysed tracks (library- "
          "and foreign-written blobs); each step damages one stored blob cell through a second SQLite connection (truncation at any "
          "length, bit flips in the compressed stream, payload byte edits re-deflated, every embedded count/length field set to "
          "-1/0/1/fit/fit+1/2^31/2^61/2^63-1/INT64_MIN, length prefix rewritten, trailing garbage, cut before the end marker, tiny/NULL "
          "cells, payload truncated with an intact frame, zeroed and duplicated ranges) or flips bits in raw database pages while the "
          "library is closed; then every reader runs: snapshot(), all getters, read-modify-write setters, track_table::get, per-column blob "
          "getters, X_blob::from_blob on the damaged bytes; ~25-40 corruptions per run; non-trivial = at least one corruption applied "
          "and read; distinct = new plan digest reaching a new stored-payload hash.  The corruptgrid profile adds the systematic part: "
          "stratified by run index over (schema, blob kind, damage mode) it walks whole grids - every truncation length of the cell and of the "
          "payload in an intact frame, a byte damaged at every offset of the cell and of the payload, every count/length field and the length "
          "prefix at every boundary value (capped at 1500 variants per walk) - through from_blob (2.x) and through the store + snapshot() (1.x "
          "always, 2.x every 6th variant).  This is seeded structured corruption of real stored blobs, not coverage-guided fuzzing",
     assumptions=["a worker death (sanitizer exit code, signal, wall-clock alarm) is attributed to the run whose BEGIN line was flushed last",
                  "termination is decided deterministically by the inflate no-progress detector and the VM-tick budget; the 60 s alarm is a backstop",
                  "std::bad_alloc / std::length_error count as exceptions derived from std::exception (ASan runs with allocator_may_return_null=1)"],
     crash_owner=True)
prop("C04", "exploration",
     quick=[("foreign", "fast", 2500), ("foreign", "san", 150)],
     thorough=[("foreign", "fast", 120000), ("foreign", "san", 4000)],
     relevant=["c04_preservation_checked"],
     rule="2.x on-disk library shared with a foreign writer that stores blobs in shapes the library never produces (0..12 cue/loop entries, "
          "flag bytes 0/1/2/128/255, unknown fields non-zero, default != adjusted grid, loudness low != mid != high, 0..64 trailing bytes, NaN "
          "payloads) or mutates stored payloads; then histories of table-API get->update of the unchanged row, per-column blob get->set, and "
          "every public single-field setter; before and after each write an independent reader inflates all five stored blobs and compares them "
          "field by field: only the bytes the setter owns may differ (main-cue-adjusted byte may be normalised to 1); non-trivial = at least one "
          "preservation comparison on a track holding foreign data; distinct = new plan digest reaching a new stored-payload hash",
     assumptions=["set_loops and set_waveform replace their whole blob: the loops list / overview waveform is one field at the API level, so the "
                  "whole blob counts as owned by them (the statement's read-modify-write clause is anchored at the partial setters)"])

prop("C13", "exploration",
     quick=[("detect", "fast", 2500)],
     thorough=[("detect", "fast", 150000)],
     relevant=["detections"],
     rule="between close and reload a second SQLite client rewrites the stored (major, minor, patch) triple - every supported triple, its +-1 "
          "neighbours in each component, the whole box 0..4 x 0..22 x 0..4 and far-out values -, flips the 1.18.0 variant marker (declared type "
          "of Track.isExternalTrack) and rearranges the files on the simulated disk (own layout, no database, both layouts, missing directory, "
          "file moved to the other layout); load_database, version_name and database_exists are compared with the decision table of DESIGN "
          "appendix B; the undamaged image is restored afterwards; non-trivial = at least one detection probe; distinct = new plan digest "
          "reaching a new (triple, layout, source schema, marker) combination",
     assumptions=["combinations the statement leaves open (a 2.x or 3.0.0 triple in the legacy layout, a 1.x or 3.0.0 triple in Database2) accept the mapped "
                  "schema or any std::exception, never another supported schema",
                  "this is a decision table hosted by the simulator: it contributes the disk states and the second writer, not scheduling power"])

prop("C17", "exploration",
     quick=[("drift", "fast", 2700)],
     thorough=[("drift", "fast", 180000)],
     relevant=["drift_applied"],
     rule="on each of the 18 schemas (stratified by run index) a library created by this version - verify() must accept it in every state reached - is "
          "closed, and a second SQLite client applies ONE structural edit: drop/add/rename of a table, view, column or index; change of a "
          "column's declared type, NOT NULL, default or primary-key membership; change of an index's uniqueness or column list (ordinary DDL "
          "where SQLite allows it, sqlite_master text edits under writable_schema otherwise; 1.x: in m.db or p.db); edits that SQLite refuses, "
          "that leave an unreadable schema or that do not change what sqlite_master/table_info/index_list/index_info report are not judged; "
          "after reload verify() must throw; the undamaged image is then restored and the next edit applied (6-15 per run); non-trivial = at least "
          "one visible edit applied; distinct = new plan digest reaching a new (schema, edit kind, target) combination",
     assumptions=["a drift that load_database itself refuses (e.g. Information table gone) counts as reported",
                  "verify() throwing any std::exception counts as reported (a dropped table makes SQLite itself fail inside the validator); only silent "
                  "acceptance is a violation; evidence counts database_inconsistency vs other exceptions separately",
                  "triggers are outside the statement and are not edited; reference libraries under testdata/ are covered by the repository's own test"])

TIER_DEFAULT_SEED = {"quick": 1, "thorough": 20260929}


# ---------------------------------------------------------------------------
def log(*a):
    print(*a, flush=True)


class Serve:
    """Persistent `djsim serve` process; restarts after a crash."""

    def __init__(self, variant):
        self.variant = variant
        self.p = None
        self.execs = 0

    def start(self):
        self.p = subprocess.Popen([V.binary(self.variant), "serve"], stdin=subprocess.PIPE,
                                  stdout=subprocess.PIPE, stderr=subprocess.PIPE, text=True, bufsize=1, preexec_fn=_limits)

    def run(self, plan, trace=False):
        self.execs += 1
        if self.p is None or self.p.poll() is not None:
            self.start()
        try:
            self.p.stdin.write(json.dumps({"plan": plan, "trace": trace}) + "\n")
            self.p.stdin.flush()
            while True:
                line = self.p.stdout.readline()
                if not line:
                    break
                if line.startswith("RESULT "):
                    return json.loads(line[7:])
        except BrokenPipeError:
            pass
        rc = self.p.wait()
        err = self.p.stderr.read()[-3000:]
        self.p = None
        return {"crash": True, "exitcode": rc, "stderr": err, "viols": []}

    def close(self):
        if self.p and self.p.poll() is None:
            try:
                self.p.stdin.close()
                self.p.wait(timeout=5)
            except Exception:
                self.p.kill()


class FreshServe(Serve):
    """One fresh `djsim serve` process per execution: for violations that depend on state the library keeps outside its
    handles (a function-local static, a thread_local), which a second execution in the same process would meet changed."""

    def run(self, plan, trace=False):
        self.close()
        self.p = None
        return super().run(plan, trace)


def crash_key(res, profile):
    err = res.get("stderr", "")
    kind = "crash"
    for marker, name in (("AddressSanitizer", "asan"), ("runtime error", "ubsan"),
                         ("Assertion", "glibcxx-assertion"), ("WATCHDOG", "watchdog")):
        if marker in err:
            kind = name
            break
    if res.get("exitcode") in (-11, 139):
        kind = "sigsegv"
    detail = ""
    for l in err.splitlines():
        if "SUMMARY" in l or "runtime error" in l or "Assertion" in l:
            detail = l.strip()[:300]
            break
    owner = "C05" if profile.startswith("corrupt") else "C15"
    return owner, f"{owner}|{profile}|{kind}", detail or f"worker exited with {res.get('exitcode')}"


def viol_keys(res, profile):
    """All (property, key, detail) reported by one execution, crash included."""
    out = [(v["property"], v["key"], v["detail"]) for v in res.get("viols", [])]
    if res.get("crash"):
        out.append(crash_key(res, profile))
    return out


# ---------------------------------------------------------------------------
def sweep(profile, variant, runs, seed, collector, workers=None):
    """Run `runs` plans of `profile` across worker processes; feed collector."""
    workers = workers or (8 if variant == "san" else NCPU)
    workers = max(1, min(workers, runs))
    collector.stride[(profile, variant)] = workers
    lock = threading.Lock()
    # every worker death is a violation already; a defect that kills (or hangs, 60 s each) most runs would otherwise
    # keep the check busy for an hour to say the same thing: after this many deaths the rest of the job is abandoned
    deaths = [0]
    max_deaths = int(os.environ.get("VERIF_MAX_WORKER_DEATHS", "16"))

    def work(w):
        nxt = w
        while nxt < runs and deaths[0] < max_deaths:
            count = (runs - nxt + workers - 1) // workers
            p = subprocess.Popen([V.binary(variant), "sweep", "--profile", profile, "--seed", str(seed),
                                  "--start", str(nxt), "--count", str(count), "--stride", str(workers)],
                                 stdout=subprocess.PIPE, stderr=subprocess.PIPE, text=True, preexec_fn=_limits)
            cur = None
            done = False
            for line in p.stdout:
                if line.startswith("BEGIN "):
                    cur = int(line.split()[1])
                elif line.startswith("RESULT "):
                    res = json.loads(line[7:])
                    with lock:
                        collector.add(profile, variant, res)
                    nxt = res["run"] + workers
                elif line.startswith("DONE"):
                    done = True
            rc = p.wait()
            err = p.stderr.read()[-3000:]
            if done:
                return
            # the worker died inside run `cur`
            if rc in (2, 3):
                with lock:
                    collector.machinery_error(f"worker for {profile}/{variant} reported a usage/fatal error: rc={rc} {err[-300:]}")
                return
            if cur is None:
                with lock:
                    collector.machinery_error(f"worker for {profile}/{variant} died before its first run: rc={rc} {err[-500:]}")
                return
            res = {"run": cur, "profile": profile, "crash": True, "exitcode": rc, "stderr": err, "viols": [],
                   "steps": 0, "states": [], "probes": {}, "ops": {}, "faults": {}}
            with lock:
                collector.add(profile, variant, res)
                collector.worker_restarts += 1
                deaths[0] += 1
                if deaths[0] == max_deaths:
                    collector.cut_short.append(f"{profile}/{variant}: abandoned after {max_deaths} worker deaths")
            nxt = cur + workers

    ts = [threading.Thread(target=work, args=(w,)) for w in range(workers)]
    for t in ts:
        t.start()
    for t in ts:
        t.join()


class Collector:
    def __init__(self, pid, seed):
        self.pid = pid
        self.seed = seed
        self.runs = 0
        self.steps = 0
        self.states = set()
        self.digests = set()
        self.distinct_nontrivial = 0
        self.relevant_runs = 0
        self.probes = {}
        self.ops = {}
        self.faults = {}
        self.own = {}       # key -> list of (profile, variant, run, detail, plan or None)
        self.other = {}     # property -> count
        self.other_keys = {}
        self.worker_restarts = 0
        self.cut_short = []
        self.stride = {}
        self.errors = []
        self.per_profile = {}
        self.sim_stmts = 0
        self.sim_vfs = 0
        self.sim_span = 0
        self.clock_reads = 0
        self.truncated = 0
        self.schemas = {}
        self.enum = {}

    def machinery_error(self, msg):
        self.errors.append(msg)

    def add(self, profile, variant, res):
        self.runs += 1
        pp = self.per_profile.setdefault(f"{profile}/{variant}", {"runs": 0, "violating_runs": 0})
        pp["runs"] += 1
        self.steps += res.get("steps", 0)
        self.sim_stmts += res.get("stmts", 0)
        self.sim_vfs += res.get("vfs_calls", 0)
        self.sim_span += res.get("sim_span", 0)
        self.clock_reads += res.get("clock_reads", 0)
        if res.get("stopped"):
            self.truncated += 1
        for k, v in res.get("probes", {}).items():
            self.probes[k] = self.probes.get(k, 0) + v
        for k, v in res.get("ops", {}).items():
            self.ops[k] = self.ops.get(k, 0) + v
        for k, v in res.get("faults", {}).items():
            self.faults[k] = self.faults.get(k, 0) + v
        rel = False
        for r in PROPS[self.pid]["relevant"]:
            if r.startswith("op:"):
                if res.get("ops", {}).get(r[3:], 0) > 0:
                    rel = True
            elif res.get("probes", {}).get(r, 0) > 0:
                rel = True
        new_state = False
        for h in res.get("states", []):
            if h not in self.states:
                self.states.add(h)
                new_state = True
        dg = res.get("digest")
        if rel:
            self.relevant_runs += 1
            if dg and dg not in self.digests and new_state:
                self.distinct_nontrivial += 1
        if dg:
            self.digests.add(dg)
        en = res.get("enumeration")
        if en:
            ek = f"{en['op']}|{en['family']}"
            e = self.enum.setdefault(ek, {"pairs": 0, "statements_max": 0, "f1": 0, "f2": 0, "f3": 0, "f4": 0, "f9": 0,
                                          "attempts": 0, "faults_fired": 0, "threw": 0, "completed": 0,
                                          "f3_all_exhaustive": True})
            e["pairs"] += 1
            e["statements_max"] = max(e["statements_max"], en["statements"])
            e["f1"] += en["f1_positions"]; e["f2"] += en["f2_positions"]
            e["f3"] += en["f3_positions"]; e["f4"] += en["f4_positions"]; e["f9"] += en.get("f9_positions", 0)
            e["f3_persistent"] = e.get("f3_persistent", 0) + en.get("f3_persistent_positions", 0)
            e["fault_sequences"] = e.get("fault_sequences", 0) + en.get("fault_sequences", 0)
            e["attempts"] += en["attempts"]; e["faults_fired"] += en["faults_fired"]
            e["threw"] += en["threw"]; e["completed"] += en["completed"]
            e["f3_all_exhaustive"] = e["f3_all_exhaustive"] and en["f3_exhaustive"]
        vk = viol_keys(res, profile)
        if vk:
            pp["violating_runs"] += 1
        for (p, key, detail) in vk:
            if p == self.pid:
                plan = res.get("derived", {}).get(key) or res.get("plan")
                self.own.setdefault(key, []).append((profile, variant, res["run"], detail, plan))
            else:
                self.other[p] = self.other.get(p, 0) + 1
                self.other_keys[key] = self.other_keys.get(key, 0) + 1


# ---------------------------------------------------------------------------
def load_known():
    if not os.path.exists(KNOWN):
        return []
    return json.load(open(KNOWN)).get("findings", [])


def plan_for(profile, variant, seed, run):
    out = subprocess.run([V.binary(variant), "gen", "--profile", profile, "--seed", str(seed), "--run", str(run)],
                         stdout=subprocess.PIPE, text=True, check=True).stdout
    return json.loads(out)


CRASH_KINDS = ("crash", "asan", "ubsan", "glibcxx-assertion", "watchdog", "sigsegv")


def is_crash_key(key):
    return key.rsplit("|", 1)[-1] in CRASH_KINDS and key.count("|") == 2


def same_class(a, b):
    """Class-key equality; all worker-death kinds of one profile are one class
    (the same memory error shows as SIGSEGV in the plain build and as an ASan
    report in the sanitized one)."""
    if a == b:
        return True
    return is_crash_key(a) and is_crash_key(b) and a.rsplit("|", 1)[0] == b.rsplit("|", 1)[0]


def reproduces(serve, plan, key, profile):
    res = serve.run(plan)
    keys = [k for (_p, k, _d) in viol_keys(res, profile)]
    return any(same_class(key, k) for k in keys), res


def minimise(serve, plan, key, profile, budget=300):
    """ddmin over steps, then drop faults / shrink sizes.  Keeps `key` firing."""
    steps = plan["steps"]
    used = 0
    t_start = time.time()
    wall_cap = float(os.environ.get("VERIF_MINIMISE_WALL", "90"))

    def test(cand):
        nonlocal used
        if time.time() - t_start > wall_cap:
            used = budget  # candidates that hang until the watchdog fires are expensive: stop shrinking, keep what we have
            return False
        used += 1
        p = dict(plan)
        p["steps"] = cand
        ok, _ = reproduces(serve, p, key, profile)
        return ok

    n = 2
    while len(steps) >= 2 and used < budget:
        chunk = max(1, len(steps) // n)
        reduced = False
        for i in range(0, len(steps), chunk):
            cand = steps[:i] + steps[i + chunk:]
            if cand and used < budget and test(cand):
                steps = cand
                n = max(n - 1, 2)
                reduced = True
                break
        if not reduced:
            if chunk == 1:
                break
            n = min(len(steps), n * 2)
    # single-step removal pass
    i = 0
    while i < len(steps) and used < budget and len(steps) > 1:
        cand = steps[:i] + steps[i + 1:]
        if test(cand):
            steps = cand
        else:
            i += 1
    # simplify: drop faults, shrink sizes
    for i in range(len(steps)):
        if used >= budget:
            break
        st = steps[i]
        if "fault" in st and not plan["config"].get("profile", "").startswith("atomic"):
            c = [dict(s) for s in steps]
            del c[i]["fault"]
            if test(c):
                steps = c
                continue
        # C14 fault sequences: drop earlier faulted attempts of the chain one by one
        j = 0
        while j < len(steps[i].get("pre", [])) and used < budget:
            c = [dict(s) for s in steps]
            c[i]["pre"] = steps[i]["pre"][:j] + steps[i]["pre"][j + 1:]
            if not c[i]["pre"]:
                del c[i]["pre"]
            if test(c):
                steps = c
            else:
                j += 1
        for sz in (0, 1):
            if steps[i].get("size", 1) > sz and used < budget:
                c = [dict(s) for s in steps]
                c[i]["size"] = sz
                if test(c):
                    steps = c
                    break
    out = dict(plan)
    out["steps"] = steps
    return out, used


def fresh_replay(variant, path):
    """Execute a replay file in a fresh process; return list of keys fired."""
    r = subprocess.run([V.binary(variant), "exec", "--plan", path], stdout=subprocess.PIPE,
                       stderr=subprocess.PIPE, text=True, preexec_fn=_limits)
    data = json.load(open(path))
    profile = data.get("profile", "")
    for line in r.stdout.splitlines():
        if line.startswith("RESULT "):
            res = json.loads(line[7:])
            return [k for (_p, k, _d) in viol_keys(res, profile)], res
    res = {"crash": True, "exitcode": r.returncode, "stderr": r.stderr[-3000:], "viols": []}
    return [k for (_p, k, _d) in viol_keys(res, profile)], res


def history_violation(pid, key, occ, seed, stride):
    """The key did not re-fire from the plan alone: it may depend on what the same worker PROCESS executed before
    (state the library keeps outside its handles, e.g. a function-local static).  Rebuild that history - the plans
    the worker ran before this one - find a short suffix of it that reproduces the key in a fresh process, twice with
    equal digests, and write it as the replay.  Returns (status, path) or None if no history reproduces it."""
    profile, variant, run, detail, plan = occ
    if plan is None:
        plan = plan_for(profile, variant, seed, run)
    import hashlib
    os.makedirs(REPLAYS, exist_ok=True)

    def attempt(history):
        doc = {"property": pid, "class_key": key, "variant": variant, "profile": profile, "verif_seed": seed, "run": run,
               "detail": detail, "history": history, "plan": plan,
               "note": "replayed as a history: the violation depends on what the same process executed before"}
        h = hashlib.sha1(json.dumps(doc["history"] + [plan], sort_keys=True).encode()).hexdigest()[:10]
        path = os.path.join(REPLAYS, f"{pid}-{seed}-{h}.json")
        json.dump(doc, open(path, "w"), indent=1)
        k1, r1 = fresh_replay(variant, path)
        if not any(same_class(key, k) for k in k1):
            os.remove(path)
            return None
        k2, r2 = fresh_replay(variant, path)
        if not any(same_class(key, k) for k in k2) or r1.get("gatehash") != r2.get("gatehash"):
            os.remove(path)
            return None
        doc["expect_gatehash"] = r1.get("gatehash")
        json.dump(doc, open(path, "w"), indent=1)
        return path

    prior = [r for r in range(run - stride, -1, -stride)][:64]   # most recent first
    k = 1
    found = None
    while prior and k <= len(prior) * 2:
        hist = [plan_for(profile, variant, seed, r) for r in reversed(prior[:min(k, len(prior))])]
        path = attempt(hist)
        if path:
            found = (hist, path)
            break
        if k >= len(prior):
            break
        k *= 2
    if not found:
        return None
    hist, path = found
    # greedy: drop earlier plans one at a time while the key still fires
    i = 0
    while i < len(hist) and len(hist) > 1:
        cand = hist[:i] + hist[i + 1:]
        p2 = attempt(cand)
        if p2:
            os.remove(path)
            hist, path = cand, p2
        else:
            i += 1
    return "violation", path


def process_violation(pid, key, occ, seed, stride=None):
    """Gate, minimise, write replay, confirm.  Returns (status, path)."""
    profile, variant, run, detail, plan = occ
    if plan is None:
        plan = plan_for(profile, variant, seed, run)
    if is_crash_key(key) and variant == "fast":
        # a memory error in the plain build need not crash twice the same way:
        # reproduce and minimise it under the sanitizers, where it is detected deterministically
        V.build(["san"])
        variant = "san"
    serve = Serve(variant)
    try:
        ok1, r1 = reproduces(serve, plan, key, profile)
        ok2, r2 = reproduces(serve, plan, key, profile)
        if not (ok1 and ok2):
            # the first execution in a process fired and the second did not (or vice versa): the library may keep state
            # outside its handles that the run itself changes.  One seed must still be one repeatable execution - in a
            # fresh process: gate, minimise and replay with one process per execution.
            fserve = FreshServe(variant)
            f1, q1 = reproduces(fserve, plan, key, profile)
            f2, q2 = reproduces(fserve, plan, key, profile)
            if f1 and f2 and (q1.get("crash") or q1.get("gatehash") == q2.get("gatehash")):
                serve.close()
                serve = fserve
                ok1, ok2, r1, r2 = f1, f2, q1, q2
            else:
                fserve.close()
        if not (ok1 and ok2):
            if stride and not is_crash_key(key):
                hv = history_violation(pid, key, (profile, variant, run, detail, plan), seed, stride)
                if hv:
                    return hv
            return "nondeterministic", f"key {key} did not re-fire on re-execution (run {run} of {profile}/{variant})"
        if not r1.get("crash") and r1.get("gatehash") != r2.get("gatehash"):
            return "nondeterministic", f"gate digests differ on re-execution (run {run} of {profile}/{variant})"
        small, used = minimise(serve, plan, key, profile)
        res = serve.run(small, trace=True)
    finally:
        serve.close()
    os.makedirs(REPLAYS, exist_ok=True)
    import hashlib
    h = hashlib.sha1(json.dumps(small, sort_keys=True).encode()).hexdigest()[:10]
    path = os.path.join(REPLAYS, f"{pid}-{seed}-{h}.json")
    doc = {"property": pid, "class_key": key, "variant": variant, "profile": profile,
           "verif_seed": seed, "run": run, "detail": detail,
           "original_steps": len(plan["steps"]), "minimised_steps": len(small["steps"]),
           "minimisation_executions": used,
           "expect_gatehash": res.get("gatehash"), "plan": small, "trace": res.get("trace", [])}
    if res.get("crash"):
        doc["crash"] = {"exitcode": res.get("exitcode"), "stderr_tail": res.get("stderr", "")[-1500:]}
    json.dump(doc, open(path, "w"), indent=1)
    keys, fres = fresh_replay(variant, path)
    if not any(same_class(key, k) for k in keys) and not is_crash_key(key):
        # the minimised plan may lean on state an earlier candidate left in the serving process (library state that
        # outlives its handles): fall back to the unminimised plan, then to the worker's history
        doc.update({"plan": plan, "minimised_steps": len(plan["steps"]), "note": "not minimised: shrinking candidates depended on process state"})
        json.dump(doc, open(path, "w"), indent=1)
        keys, fres = fresh_replay(variant, path)
        if any(same_class(key, k) for k in keys):
            doc["expect_gatehash"] = fres.get("gatehash")
            json.dump(doc, open(path, "w"), indent=1)
            k2, f2 = fresh_replay(variant, path)
            if any(same_class(key, k) for k in k2) and f2.get("gatehash") == fres.get("gatehash"):
                return "violation", path
        elif stride:
            os.remove(path)
            hv = history_violation(pid, key, (profile, variant, run, detail, plan), seed, stride)
            if hv:
                return hv
    if not any(same_class(key, k) for k in keys):
        return "nondeterministic", f"fresh-process replay of {path} did not reproduce {key}"
    if not fres.get("crash") and fres.get("gatehash") != doc["expect_gatehash"]:
        return "nondeterministic", f"fresh-process replay of {path} gave another gate digest"
    return "violation", path


class KnownSet:
    """Open findings of one property: exact class keys and/or key regexes."""

    def __init__(self):
        self.exact = set()
        self.regex = []

    def __contains__(self, key):
        import re
        return key in self.exact or any(re.fullmatch(r, key) for r in self.regex)


def check_known(pid):
    """Replay stored open findings of this property; returns the set of open keys."""
    import re
    ks = KnownSet()
    for f in load_known():
        if f.get("property") != pid or f.get("status") != "open":
            continue
        if "key" in f:
            ks.exact.add(f["key"])
        if "key_regex" in f:
            ks.regex.append(f["key_regex"])
        rp = os.path.join(VERIF, f["replay"])
        data = json.load(open(rp))
        keys, _ = fresh_replay(data.get("variant", "fast"), rp)
        hit = [k for k in keys if same_class(k, f.get("key", "")) or ("key_regex" in f and re.fullmatch(f["key_regex"], k))]
        if hit:
            log(f"KNOWN-FINDING: property={pid} {f['what']}")
        else:
            log(f"note: known finding '{f['what'][:80]}' no longer reproduces from {f['replay']}")
    return ks


def write_evidence(pid, tier, seed, col, wall, violations, known_hits, samples, extra=None):
    cfg = PROPS[pid]
    os.makedirs(EVID, exist_ok=True)
    cov = {
        "evaluations": col.runs,
        "distinct_nontrivial": col.distinct_nontrivial,
        "rule": cfg["rule"],
        "samples": samples,
        "relevant_runs": col.relevant_runs,
        "steps_executed": col.steps,
        "distinct_observation_hashes": len(col.states),
        "distinct_plan_digests": len(col.digests),
        "runs_per_hour": int(col.runs / wall * 3600) if wall > 0 else 0,
        "seeds_per_hour": int(col.runs / wall * 3600) if wall > 0 else 0,
        "simulated_sql_statements": col.sim_stmts,
        "simulated_vfs_calls": col.sim_vfs,
        "simulated_time_covered_s": col.sim_span,
        "simulated_clock_reads": col.clock_reads,
        "faults_fired": dict(col.faults, **{k: v for k, v in {
            "F5_close_and_reload": col.probes.get("reload_ok", 0),
            "F6_clock_jump": col.ops.get("clock", 0) + col.probes.get("clock_jump_at_reload", 0),
            "F7_foreign_write": col.probes.get("foreign_write", 0),
            "F8_stored_byte_corruption": col.probes.get("corruptions", 0) + col.probes.get("page_corruptions", 0),
            "second_party_version_or_layout_rewrite": col.probes.get("detections", 0),
            "second_party_schema_drift": col.probes.get("drift_applied", 0),
        }.items() if v}),
        "fault_kinds_legend": "F1 statement fails at its boundary; F2 interrupt at a VM tick; F3 VFS call fails (I/O error, disk full, "
                              "cannot open, busy lock); F3-persistent: the addressed VFS call and every later call of that method on that file fail (for "
                              "disk-full: nothing can grow) until the API call returns; F4 SQLite allocation fails; F9 second party takes the write lock between two statements; "
                              "F5 close + reload; F6 clock jump; F7 foreign write; F8 stored bytes damaged",
        "op_counts": col.ops,
        "reach_probes": col.probes,
        "per_profile": col.per_profile,
        "runs_truncated": col.truncated,
        "worker_restarts": col.worker_restarts,
        "jobs_cut_short": col.cut_short,
        "other_property_hits": col.other,
        "other_property_classes": col.other_keys,
        "known_findings_hit": known_hits,
        "components": {
            "real": ["libdjinterop (all of src/)", "sqlite_modern_cpp", "system SQLite 3.40.1 (parser, VM, pager, journal, locking)", "zlib"],
            "stub": ["disk (in-memory VFS 'djsim')", "stat/mkdir under /djsim", "system_clock::now and SQLite VFS clock",
                     "random uuid/int64 and SQLite PRNG seed", "SQLite allocator wrapper (delegates unless a fault is armed)"],
        },
        "exhaustive": False,
    }
    if extra:
        cov.update(extra)
    ev = {"property_id": pid, "tier": tier, "seed": seed, "level": cfg["level"], "coverage": cov,
          "assumptions": COMMON_ASSUME + cfg["assumptions"], "wall_s": round(wall, 2), "violations": violations}
    json.dump(ev, open(os.path.join(EVID, f"{pid}.json"), "w"), indent=1)


def cmd_check(pid, tier):
    if pid not in PROPS:
        log(f"unknown or unclaimed property {pid}")
        return 2
    t0 = time.time()
    seed = int(os.environ.get("VERIF_SEED", TIER_DEFAULT_SEED[tier]))
    cfg = PROPS[pid]
    jobs = cfg[tier]
    variants = sorted({v for (_p, v, _n) in jobs})
    bt = V.build(variants)
    log(f"VERIF_SEED={seed} property={pid} tier={tier} build={bt:.1f}s")
    open_keys = check_known(pid)
    col = Collector(pid, seed)
    for (profile, variant, runs) in jobs:
        t1 = time.time()
        sweep(profile, variant, runs, seed, col)
        log(f"  {profile}/{variant}: {runs} runs in {time.time() - t1:.1f}s")
    if col.errors:
        for e in col.errors:
            log("MACHINERY-ERROR:", e)
        write_evidence(pid, tier, seed, col, time.time() - t0, 0, [], [])
        return 2
    samples = []
    try:
        p0, v0, _ = jobs[0]
        for i in range(2):
            samples.append(plan_for(p0, v0, seed, i))
    except Exception as e:  # noqa
        samples.append({"error": str(e)})
    # vacuity guard
    if col.relevant_runs == 0 or col.distinct_nontrivial < 2:
        log(f"MACHINERY-ERROR: vacuous batch (relevant runs {col.relevant_runs}, distinct non-trivial {col.distinct_nontrivial})")
        write_evidence(pid, tier, seed, col, time.time() - t0, 0, [], samples)
        return 2
    new = {k: v for k, v in col.own.items() if k not in open_keys}
    known_hits = sorted(k for k in col.own if k in open_keys)
    status = 0
    nviol = 0
    done_keys = []
    for key in sorted(new):
        if len(done_keys) >= 5:
            break
        if any(same_class(key, k) for k in done_keys):
            continue
        done_keys.append(key)
        st, info = process_violation(pid, key, new[key][0], seed, col.stride.get((new[key][0][0], new[key][0][1])))
        if st == "violation":
            nviol += 1
            log(f"  class {key}: {len(new[key])} runs; first: {new[key][0][3][:300]}")
            log(f"VIOLATION property={pid} replay={info}")
            status = max(status, 1)
        else:
            log(f"NONDETERMINISM {info}")
            status = 2
    wall = time.time() - t0
    extra = None
    if col.enum:
        tot = {k: sum(e.get(k, 0) for e in col.enum.values()) for k in ("pairs", "f1", "f2", "f3", "f3_persistent", "f4", "f9", "fault_sequences", "attempts", "faults_fired", "threw", "completed")}
        extra = {"fault_enumeration": {"per_operation_and_family": col.enum, "totals": tot,
                                       "f1_exhaustive_within_each_pair": True,
                                       "outer_loop": "sampled (state, call) pairs"}}
    write_evidence(pid, tier, seed, col, wall, len(new), known_hits, samples, extra)
    log(f"property={pid} tier={tier} runs={col.runs} relevant={col.relevant_runs} distinct_nontrivial={col.distinct_nontrivial} "
        f"states={len(col.states)} own_violation_classes={len(new)} other_hits={sum(col.other.values())} wall={wall:.1f}s")
    return status


def cmd_replay(path):
    data = json.load(open(path))
    variant = data.get("variant", "fast")
    V.build([variant])
    keys, res = fresh_replay(variant, path)
    if any(same_class(data["class_key"], k) for k in keys):
        log(f"reproduced {data['class_key']}")
        log(f"VIOLATION property={data['property']} replay={path}")
        return 1
    log(f"{data['class_key']} does not reproduce on the current tree (fired: {keys})")
    return 0


def cmd_determinism(profiles, n, seed):
    """Run n seeds of each profile twice at two worker counts; compare strict digests."""
    V.build(["fast"])
    bad = 0
    for profile in profiles:
        logs = []
        for workers in (NCPU, 3):
            class C:
                def __init__(self):
                    self.h = {}
                    self.worker_restarts = 0
                    self.cut_short = []
                    self.stride = {}
                    self.errors = []

                def add(self, p, v, res):
                    self.h[res["run"]] = (res.get("loghash"), res.get("gatehash"), len(res.get("viols", [])))

                def machinery_error(self, m):
                    self.errors.append(m)
            c = C()
            sweep(profile, "fast", n, seed, c, workers=workers)
            logs.append(c.h)
        diff = [i for i in logs[0] if logs[0][i] != logs[1].get(i)]
        log(f"determinism {profile}: {n} seeds x 2 executions (16 vs 3 workers): {len(diff)} mismatches")
        bad += len(diff)
        if diff:
            log("  first mismatching runs:", diff[:10])
    return 0 if bad == 0 else 2


def main(args):
    cmd = args[0]
    if cmd == "check":
        pid = args[1]
        tier = os.environ.get("VERIF_TIER", "quick")
        if "--tier" in args:
            tier = args[args.index("--tier") + 1]
        return cmd_check(pid, tier)
    if cmd == "replay":
        return cmd_replay(args[1])
    if cmd == "determinism":
        n = int(args[1]) if len(args) > 1 else 300
        seed = int(os.environ.get("VERIF_SEED", 7))
        profs = args[2:] or ["tracks", "crates", "members", "mixed"]
        return cmd_determinism(profs, n, seed)
    print("unknown command", cmd)
    return 2
