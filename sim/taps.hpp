// Taps: link-time interception points (sqlite3_step/prepare/close, clock,
// random, inflate), progress handler, SQLite allocator wrapper, connection
// registry.  All counters are per API call; all faults are one-shot.
#pragma once
#include <cstdint>
#include <string>
#include <vector>

struct sqlite3;

namespace djsim
{
struct Taps
{
    // ---- per API call
    int stmt_count = 0;       // statements begun (first step) by the library
    int step_errors = 0;      // steps that returned an error (real or injected)
    int last_error_code = 0;
    uint64_t ticks = 0;       // progress-handler invocations
    uint64_t mallocs = 0;     // SQLite allocations
    uint64_t inflate_calls = 0;
    uint64_t max_alloc = 0;   // largest single heap request of the current API call (C++ operator new / malloc)
    uint64_t prepares = 0;
    bool record_sql = false;
    std::vector<std::string> sql_log;

    // ---- armed faults
    struct
    {
        bool armed = false, fired = false;
        int ordinal = 0;
        int code = 0;
    } f1;
    struct
    {
        bool armed = false, fired = false;
        uint64_t tick = 0;
    } f2;
    struct
    {
        bool armed = false, fired = false;
        uint64_t nth = 0;
    } f4;
    // F9: at the k-th statement boundary the second party takes (and keeps) a write lock
    struct
    {
        bool armed = false, fired = false, attempted = false;
        int ordinal = 0;
    } f9;
    bool (*contention_hook)() = nullptr;  // returns true if the lock was obtained

    // ---- watchdogs (deterministic)
    uint64_t tick_limit = 4000000;
    bool tick_watchdog_fired = false;
    bool inflate_nonterm = false;
    int inflate_noprogress = 0;
    uint64_t inflate_budget = 0;  // 0 = unlimited

    // ---- run totals
    uint64_t total_stmts = 0, total_ticks = 0, total_mallocs = 0;

    // ---- library connections currently open
    std::vector<sqlite3*> lib_conns;
    uint64_t conns_opened = 0, conns_closed = 0;

    void begin_call();
    void disarm();
    int64_t total_changes() const;
};

extern Taps g_taps;

// must be called once, before any other SQLite use
void taps_install();
// deterministic sources
void taps_reseed(uint64_t seed);
extern uint64_t g_uuid_counter;

}  // namespace djsim
