// Canonical observation of a library through the public API only.
#include <cxxabi.h>

#include <algorithm>
#include <sstream>

#include "world.hpp"
#include "tstate.hpp"

namespace djsim
{
std::string demangle(const char* name)
{
    int status = 0;
    char* d = abi::__cxa_demangle(name, nullptr, nullptr, &status);
    std::string s = (status == 0 && d) ? d : name;
    free(d);
    return s;
}

static const char* kFieldNames[F_COUNT] = {
    "album", "artist", "average_loudness", "beatgrid", "bitrate", "bpm",
    "comment", "composer", "duration", "file_bytes", "genre", "hot_cues",
    "key", "last_played_at", "loops", "main_cue", "publisher", "rating",
    "relative_path", "sample_count", "sample_rate", "title", "track_number",
    "waveform", "year"};

const char* field_name(int f)
{
    if (f >= 0 && f < F_COUNT)
        return kFieldNames[f];
    if (f == F_HOT_CUE_AT)
        return "hot_cue_at";
    if (f == F_LOOP_AT)
        return "loop_at";
    return "?";
}

std::string ids_str(const std::vector<int64_t>& v)
{
    std::string s;
    for (auto x : v)
    {
        if (!s.empty())
            s += ',';
        s += std::to_string(x);
    }
    return s;
}

// ---- value rendering (doubles by bit pattern; long strings by length+hash)
static std::string rs(const std::string& s)
{
    if (s.size() <= 48)
    {
        std::string out = "\"";
        for (unsigned char c : s)
        {
            if (c < 0x20 || c == '"' || c == '\\' || c >= 0x7f)
            {
                char b[8];
                snprintf(b, sizeof b, "\\x%02x", c);
                out += b;
            }
            else
                out += (char)c;
        }
        return out + "\"";
    }
    return "str[" + std::to_string(s.size()) + "]#" + hex64(hash_str(s));
}
static std::string rd(double d) { return "d" + hex64(double_bits(d)); }
template <typename T>
static std::string ropt_int(const std::optional<T>& v)
{
    return v ? std::to_string(*v) : std::string("-");
}
static std::string ropt_s(const std::optional<std::string>& v)
{
    return v ? rs(*v) : std::string("-");
}
static std::string ropt_d(const std::optional<double>& v)
{
    return v ? rd(*v) : std::string("-");
}
static std::string rcolor(const dj::pad_color& c)
{
    char b[16];
    snprintf(b, sizeof b, "%02x%02x%02x%02x", c.r, c.g, c.b, c.a);
    return b;
}
static std::string rcue(const std::optional<dj::hot_cue>& c)
{
    if (!c)
        return "-";
    return "{" + rs(c->label) + "," + rd(c->sample_offset) + "," + rcolor(c->color) + "}";
}
static std::string rloop(const std::optional<dj::loop>& l)
{
    if (!l)
        return "-";
    return "{" + rs(l->label) + "," + rd(l->start_sample_offset) + "," +
           rd(l->end_sample_offset) + "," + rcolor(l->color) + "}";
}
static std::string rcues(const std::vector<std::optional<dj::hot_cue>>& v)
{
    std::string s = "[" + std::to_string(v.size()) + ":";
    for (auto& c : v)
        s += rcue(c) + ";";
    return s + "]";
}
static std::string rloops(const std::vector<std::optional<dj::loop>>& v)
{
    std::string s = "[" + std::to_string(v.size()) + ":";
    for (auto& c : v)
        s += rloop(c) + ";";
    return s + "]";
}
static std::string rgrid(const std::vector<dj::beatgrid_marker>& g)
{
    if (g.size() <= 4)
    {
        std::string s = "[" + std::to_string(g.size()) + ":";
        for (auto& m : g)
            s += std::to_string(m.index) + "@" + rd(m.sample_offset) + ";";
        return s + "]";
    }
    Hasher h;
    for (auto& m : g)
    {
        h.u64((uint64_t)(int64_t)m.index);
        h.u64(double_bits(m.sample_offset));
    }
    return "grid[" + std::to_string(g.size()) + "]#" + hex64(h.value());
}
static std::string rwave(const std::vector<dj::waveform_entry>& w)
{
    Hasher h;
    for (auto& e : w)
    {
        uint8_t b[6] = {e.low.value, e.mid.value, e.high.value,
                        e.low.opacity, e.mid.opacity, e.high.opacity};
        h.bytes(b, 6);
    }
    return "wave[" + std::to_string(w.size()) + "]#" + hex64(h.value());
}
static std::string rdur(const std::optional<std::chrono::milliseconds>& d)
{
    return d ? std::to_string(d->count()) + "ms" : std::string("-");
}
static std::string rtp(const std::optional<std::chrono::system_clock::time_point>& t)
{
    if (!t)
        return "-";
    auto ns = std::chrono::duration_cast<std::chrono::nanoseconds>(t->time_since_epoch()).count();
    return std::to_string(ns) + "ns";
}
static std::string rkey(const std::optional<dj::musical_key>& k)
{
    return k ? std::to_string((int)*k) : std::string("-");
}

std::string render_snapshot_field(const dj::track_snapshot& s, int f)
{
    switch (f)
    {
        case F_ALBUM: return ropt_s(s.album);
        case F_ARTIST: return ropt_s(s.artist);
        case F_AVERAGE_LOUDNESS: return ropt_d(s.average_loudness);
        case F_BEATGRID: return rgrid(s.beatgrid);
        case F_BITRATE: return ropt_int(s.bitrate);
        case F_BPM: return ropt_d(s.bpm);
        case F_COMMENT: return ropt_s(s.comment);
        case F_COMPOSER: return ropt_s(s.composer);
        case F_DURATION: return rdur(s.duration);
        case F_FILE_BYTES: return ropt_int(s.file_bytes);
        case F_GENRE: return ropt_s(s.genre);
        case F_HOT_CUES: return rcues(s.hot_cues);
        case F_KEY: return rkey(s.key);
        case F_LAST_PLAYED_AT: return rtp(s.last_played_at);
        case F_LOOPS: return rloops(s.loops);
        case F_MAIN_CUE: return ropt_d(s.main_cue);
        case F_PUBLISHER: return ropt_s(s.publisher);
        case F_RATING: return ropt_int(s.rating);
        case F_RELATIVE_PATH: return ropt_s(s.relative_path);
        case F_SAMPLE_COUNT: return ropt_int(s.sample_count);
        case F_SAMPLE_RATE: return ropt_d(s.sample_rate);
        case F_TITLE: return ropt_s(s.title);
        case F_TRACK_NUMBER: return ropt_int(s.track_number);
        case F_WAVEFORM: return rwave(s.waveform);
        case F_YEAR: return ropt_int(s.year);
    }
    return "?";
}

Fields render_snapshot(const dj::track_snapshot& s)
{
    Fields f;
    for (int i = 0; i < F_COUNT; ++i)
        f.emplace_back(kFieldNames[i], render_snapshot_field(s, i));
    return f;
}

static bool s_nonstd_seen = false;
static std::string s_nonstd_where;

template <typename Fn>
static std::string guard_str(Fn&& fn)
{
    try
    {
        return fn();
    }
    catch (const std::exception& e)
    {
        return "!" + demangle(typeid(e).name());
    }
    catch (...)
    {
        s_nonstd_seen = true;
        return "!<non-std>";
    }
}

static void flush_nonstd(World& w, const char* where)
{
    if (!s_nonstd_seen)
        return;
    s_nonstd_seen = false;
    w.report(w.safety_owner(), w.safety_owner() + "|" + where + "|" + w.fam() + "|non-std-exception",
             std::string("an observing call on a ") + where + " threw something not derived from std::exception");
}

TrackObs World::observe_track(dj::track& t)
{
    TrackObs o;
    o.id = t.id();
    o.valid = guard_str([&] { return std::string(t.is_valid() ? "1" : "0"); });
    try
    {
        o.snapshot = t.snapshot();
        o.have_snapshot = true;
        o.snap = render_snapshot(o.snapshot);
    }
    catch (const std::exception& e)
    {
        o.snap.emplace_back("!", demangle(typeid(e).name()));
    }
    catch (...)
    {
        o.snap.emplace_back("!", "<non-std>");
        report(safety_owner(), safety_owner() + "|snapshot|" + fam() + "|non-std-exception", "snapshot() threw a non-std exception");
    }
    auto g = [&](const char* name, auto&& fn) { o.get.emplace_back(name, guard_str(fn)); };
    g("album", [&] { return ropt_s(t.album()); });
    g("artist", [&] { return ropt_s(t.artist()); });
    g("average_loudness", [&] { return ropt_d(t.average_loudness()); });
    g("beatgrid", [&] { return rgrid(t.beatgrid()); });
    g("bitrate", [&] { return ropt_int(t.bitrate()); });
    g("bpm", [&] { return ropt_d(t.bpm()); });
    g("comment", [&] { return ropt_s(t.comment()); });
    g("composer", [&] { return ropt_s(t.composer()); });
    g("duration", [&] { return rdur(t.duration()); });
    g("genre", [&] { return ropt_s(t.genre()); });
    g("hot_cues", [&] { return rcues(t.hot_cues()); });
    g("key", [&] { return rkey(t.key()); });
    g("last_played_at", [&] { return rtp(t.last_played_at()); });
    g("loops", [&] { return rloops(t.loops()); });
    g("main_cue", [&] { return ropt_d(t.main_cue()); });
    g("publisher", [&] { return ropt_s(t.publisher()); });
    g("rating", [&] { return ropt_int(t.rating()); });
    g("relative_path", [&] { return rs(t.relative_path()); });
    g("sample_count", [&] { return ropt_int(t.sample_count()); });
    g("sample_rate", [&] { return ropt_d(t.sample_rate()); });
    g("title", [&] { return ropt_s(t.title()); });
    g("track_number", [&] { return ropt_int(t.track_number()); });
    g("waveform", [&] { return rwave(t.waveform()); });
    g("year", [&] { return ropt_int(t.year()); });
    g("filename", [&] { return rs(t.filename()); });
    g("file_extension", [&] { return rs(t.file_extension()); });
    g("hot_cue_at", [&] {
        std::string s;
        for (int i = 0; i < 8; ++i)
            s += rcue(t.hot_cue_at(i)) + ";";
        return s;
    });
    g("loop_at", [&] {
        std::string s;
        for (int i = 0; i < 8; ++i)
            s += rloop(t.loop_at(i)) + ";";
        return s;
    });
    if (!v2)
        g("containing_crates", [&] {
            std::vector<int64_t> ids;
            for (auto& c : t.containing_crates())
                ids.push_back(c.id());
            std::sort(ids.begin(), ids.end());
            return ids_str(ids);
        });
    flush_nonstd(*this, "track");
    return o;
}

CrateObs World::observe_crate(dj::crate& c)
{
    CrateObs o;
    o.id = c.id();
    o.valid = guard_str([&] { return std::string(c.is_valid() ? "1" : "0"); });
    o.name = guard_str([&] {
        auto n = c.name();
        o.name_ok = true;
        o.raw_name = n;
        return rs(n);
    });
    o.parent = guard_str([&] {
        auto p = c.parent();
        o.parent_ok = true;
        if (p)
            o.parent_v = p->id();
        return p ? std::to_string(p->id()) : std::string("-");
    });
    o.children = guard_str([&] {
        for (auto& x : c.children())
            o.children_v.push_back(x.id());
        o.children_ok = true;
        return ids_str(o.children_v);
    });
    o.descendants = guard_str([&] {
        for (auto& x : c.descendants())
            o.descendants_v.push_back(x.id());
        std::sort(o.descendants_v.begin(), o.descendants_v.end());
        o.descendants_ok = true;
        return ids_str(o.descendants_v);
    });
    o.tracks = guard_str([&] {
        for (auto& x : c.tracks())
            o.tracks_v.push_back(x.id());
        o.tracks_ok = true;
        return ids_str(o.tracks_v);
    });
    flush_nonstd(*this, "crate");
    return o;
}

FullObs World::observe()
{
    FullObs o;
    if (!db)
        return o;
    auto& d = *db;
    g_taps.begin_call();
    o.uuid_token = guard_str([&] {
        auto u = d.uuid();
        // the text is random; its identity is not: token = order of first appearance within this run, so that a library
        // answering with another UUID than before (e.g. after close + load) is an observable difference
        auto it = uuid_seen.find(u);
        if (it == uuid_seen.end())
            it = uuid_seen.emplace(u, (int)uuid_seen.size()).first;
        return std::string(u.size() == 36 ? "uuid36#" : "uuid?" + std::to_string(u.size()) + "#") + std::to_string(it->second);
    });
    o.version = guard_str([&] { return d.version_name(); });
    o.directory = guard_str([&] { return d.directory(); });
    std::vector<dj::track> tks;
    o.tracks = guard_str([&] {
        tks = d.tracks();
        for (auto& t : tks)
            o.tracks_v.push_back(t.id());
        o.tracks_ok = true;
        return ids_str(o.tracks_v);
    });
    std::vector<dj::crate> crs;
    o.crates = guard_str([&] {
        crs = d.crates();
        for (auto& c : crs)
            o.crates_v.push_back(c.id());
        o.crates_ok = true;
        return ids_str(o.crates_v);
    });
    o.roots = guard_str([&] {
        for (auto& c : d.root_crates())
            o.roots_v.push_back(c.id());
        o.roots_ok = true;
        return ids_str(o.roots_v);
    });
    for (auto& t : tks)
        o.track[t.id()] = observe_track(t);
    for (auto& c : crs)
        o.crate[c.id()] = observe_crate(c);
    // handles the client still holds (incl. stale ones)
    for (auto& s : tracks)
        if (s.h && !o.track.count(s.id))
            o.track[s.id] = observe_track(*s.h);
    for (auto& s : crates)
        if (s.h && !o.crate.count(s.id))
            o.crate[s.id] = observe_crate(*s.h);

    // lookups: by id for every known id plus neighbours; by name for every
    // name seen plus a dead one
    std::set<int64_t> tids, cids;
    for (auto& kv : o.track)
        tids.insert(kv.first);
    for (auto id : model.dead_tracks)
        tids.insert(id);
    tids.insert(0);
    tids.insert(99999);
    for (auto id : tids)
        o.lookups.emplace_back("track_by_id:" + std::to_string(id), guard_str([&] {
            auto t = d.track_by_id(id);
            return std::string(t ? std::to_string(t->id()) : "-");
        }));
    for (auto& kv : o.crate)
        cids.insert(kv.first);
    for (auto id : model.dead_crates)
        cids.insert(id);
    cids.insert(0);
    cids.insert(99999);
    for (auto id : cids)
        o.lookups.emplace_back("crate_by_id:" + std::to_string(id), guard_str([&] {
            auto c = d.crate_by_id(id);
            return std::string(c ? std::to_string(c->id()) : "-");
        }));
    // lookup by path: every path a track has now or was seen to have earlier (a stale answer for a path no track has any
    // more is an observable difference, e.g. before / after reload)
    for (auto& kv : o.track)
        if (kv.second.have_snapshot && kv.second.snapshot.relative_path && seen_paths.size() < 40)
            seen_paths.insert(*kv.second.snapshot.relative_path);
    for (auto& pth : seen_paths)
        o.lookups.emplace_back("tracks_by_relative_path:" + rs(pth), guard_str([&] {
            std::vector<int64_t> ids;
            for (auto& t : d.tracks_by_relative_path(pth))
                ids.push_back(t.id());
            std::sort(ids.begin(), ids.end());
            return ids_str(ids);
        }));
    std::set<std::string> names;
    for (auto& kv : o.crate)
        if (kv.second.name_ok)
            names.insert(kv.second.raw_name);
    names.insert("no-such-crate");
    for (auto& n : names)
    {
        o.name_lookups.push_back({"crates_by_name", 0, n, guard_str([&] {
            std::vector<int64_t> ids;
            for (auto& c : d.crates_by_name(n))
                ids.push_back(c.id());
            std::sort(ids.begin(), ids.end());
            return ids_str(ids);
        })});
        o.name_lookups.push_back({"root_crate_by_name", 0, n, guard_str([&] {
            auto c = d.root_crate_by_name(n);
            return std::string(c ? std::to_string(c->id()) : "-");
        })});
    }
    int pairs = 0;
    for (auto& c : crs)
    {
        for (auto& n : names)
        {
            if (++pairs > 48)
                break;
            o.name_lookups.push_back({"sub_crate_by_name", c.id(), n, guard_str([&] {
                    auto x = c.sub_crate_by_name(n);
                    return std::string(x ? std::to_string(x->id()) : "-");
                })});
        }
    }
    for (auto& l : o.name_lookups)
        o.lookups.emplace_back(l.kind + ":" + std::to_string(l.crate) + ":" + rs(l.name), l.result);
    if (v2 && tstate && tstate->lib && plan.cfg.profile.compare(0, 6, "atomic") == 0)
        o.table_digest = table_digest();
    flush_nonstd(*this, "database");
    if (g_taps.tick_watchdog_fired)
    {
        report(safety_owner(), safety_owner() + "|observe|" + fam() + "|sql-watchdog",
               "an observing call exceeded the VM tick budget (non-termination)");
        stop = true;
        stop_reason = "sql watchdog fired during observation";
        g_taps.begin_call();
    }
    return o;
}

std::string FullObs::serialize() const
{
    std::string s;
    if (!table_digest.empty())
        s += "table-api-digest=" + table_digest + "\n";
    s += "uuid=" + uuid_token + "\nversion=" + version + "\ndir=" + directory +
         "\ntracks=" + tracks + "\ncrates=" + crates + "\nroots=" + roots + "\n";
    for (auto& kv : track)
    {
        s += "T" + std::to_string(kv.first) + " valid=" + kv.second.valid + "\n";
        for (auto& f : kv.second.snap)
            s += "  s." + f.first + "=" + f.second + "\n";
        for (auto& f : kv.second.get)
            s += "  g." + f.first + "=" + f.second + "\n";
    }
    for (auto& kv : crate)
    {
        auto& c = kv.second;
        s += "C" + std::to_string(kv.first) + " valid=" + c.valid + " name=" + c.name +
             " parent=" + c.parent + " children=" + c.children + " desc=" +
             c.descendants + " tracks=" + c.tracks + "\n";
    }
    for (auto& f : lookups)
        s += "L " + f.first + "=" + f.second + "\n";
    return s;
}

}  // namespace djsim
