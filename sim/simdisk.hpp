// SimDisk: in-memory file tree mounted at /djsim, registered as the default
// SQLite VFS, also backing the wrapped stat()/mkdir().  Every call made on
// behalf of the library (i.e. not inside a HarnessScope) is counted and may be
// failed by an armed fault.
#pragma once
#include <cstdint>
#include <functional>
#include <map>
#include <memory>
#include <set>
#include <string>
#include <vector>

struct sqlite3_vfs;

namespace djsim
{
constexpr const char* kRoot = "/djsim";

enum VfsMethod
{
    VM_OPEN = 0,
    VM_DELETE,
    VM_ACCESS,
    VM_READ,
    VM_WRITE,
    VM_TRUNCATE,
    VM_SYNC,
    VM_FILESIZE,
    VM_LOCK,
    VM_UNLOCK,
    VM_CLOSE,
    VM_COUNT
};
const char* vfs_method_name(int m);
int vfs_method_from_name(const std::string& s);

// File roles for structural fault addressing.
enum FileRole
{
    FR_MDB = 0,       // m.db (1.x) or Database2/m.db (2.x)
    FR_MDB_JOURNAL,   // its -journal
    FR_PDB,           // p.db
    FR_PDB_JOURNAL,   // p.db-journal
    FR_TEMP,          // anonymous temp files, statement journals, super-journals
    FR_OTHER,
    FR_COUNT
};
const char* file_role_name(int r);
int file_role_from_name(const std::string& s);
int classify_role(const std::string& path);

struct FileData
{
    std::vector<uint8_t> bytes;
    // lock state shared by all handles on the file
    int n_shared = 0;
    const void* reserved_by = nullptr;
    const void* pending_by = nullptr;
    const void* exclusive_by = nullptr;
    int open_count = 0;
};

struct DiskImage
{
    std::map<std::string, std::vector<uint8_t>> files;
    std::set<std::string> dirs;
};

struct VfsCallInfo
{
    int method;
    int role;
    int ordinal;  // ordinal of (method, role) within the current API call
};

struct SimDisk
{
    std::map<std::string, std::shared_ptr<FileData>> files;
    std::set<std::string> dirs;

    // knobs
    int sector_size = 4096;
    int device_chars = 0;
    int64_t quota_bytes = -1;  // total size limit for SQLITE_FULL (-1: none)

    // counters (library-owned activity only)
    uint64_t lib_writes = 0, lib_truncates = 0, lib_deletes = 0, lib_syncs = 0,
             lib_opens = 0, lib_calls = 0;
    // per API call: count[method][role]
    int call_count[VM_COUNT][FR_COUNT] = {};
    std::vector<VfsCallInfo> call_log;  // recorded when record_calls is set
    bool record_calls = false;

    // armed fault: fires when (method, role, ordinal) is reached
    struct Armed
    {
        bool armed = false;
        int method = 0, role = 0, ordinal = 0;
        int code = 0;  // sqlite result code to return
        bool fired = false;
        int persist = 0;        // see FaultSpec::persist
        uint64_t refired = 0;   // how often a persistent fault failed further calls
    } fault;
    // hook consulted in addition (for buggify-style faults)
    std::function<int(int method, int role, const std::string& path)> hook;

    void reset();  // empty disk, only the root directory
    void begin_api_call();
    DiskImage snapshot() const;
    void restore(const DiskImage& img);  // requires no open handles
    uint64_t image_hash(bool include_journals = true) const;
    int open_handles() const;
    bool exists_file(const std::string& p) const { return files.count(p) > 0; }
    bool exists_dir(const std::string& p) const { return dirs.count(p) > 0; }
    std::vector<std::string> list_files() const;

    // returns sqlite error code (0 = proceed) for a library-owned call
    int on_call(int method, const std::string& path);
};

extern SimDisk g_disk;

// depth counter: >0 while harness code is using SQLite itself
extern int g_harness_depth;
struct HarnessScope
{
    HarnessScope() { ++g_harness_depth; }
    ~HarnessScope() { --g_harness_depth; }
};
inline bool in_harness() { return g_harness_depth > 0; }

// Simulated clock (seconds since epoch) shared by VFS and chrono wrap.
extern int64_t g_sim_clock;
extern uint64_t g_clock_reads;

// registers the VFS as default; idempotent
void simdisk_register();
void simdisk_reseed(uint64_t seed);

bool is_sim_path(const char* p);
std::string norm_path(const std::string& p);

}  // namespace djsim
