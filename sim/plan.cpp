// Seeded plan generation per profile (swarm style: every run draws its own
// schema, knobs, op mix and sizes).
#include "world.hpp"

namespace djsim
{
namespace
{
Step mk(const std::string& op, Rng& r, int nargs, int size)
{
    Step s;
    s.op = op;
    for (int i = 0; i < nargs; ++i)
        s.a.push_back((int64_t)r.below(1000));
    s.vseed = r.next() | 1;
    s.size = size;
    return s;
}

int draw_size(Rng& r)
{
    static const int sz[] = {0, 1, 1, 1, 2, 2, 2, 3};
    return sz[r.below(8)];
}

void common_config(Plan& p, Rng& r)
{
    p.cfg.schema = (int)r.below(18);
    p.cfg.on_disk = !r.chance(1, 7);
    static const int caches[] = {0, 0, 0, 8, 2};
    p.cfg.cache_pages = caches[r.below(5)];
    p.cfg.sector = r.chance(1, 3) ? 512 : 4096;
    p.cfg.gf.nul_bytes = r.chance(1, 4);  // strings and names with an embedded NUL byte
}

Step track_step(Rng& r, int size)
{
    Step s = mk("set", r, 4, size);
    // field selection: every setter incl. per-slot ones
    unsigned k = r.below(28);
    if (k < 25)
        s.a[1] = k;
    else if (k < 27)
        s.a[1] = F_HOT_CUE_AT;
    else
        s.a[1] = F_LOOP_AT;
    if (r.chance(1, 4))
        s.a[2] = r.chance(1, 2) ? 0 : 7;  // bias to the edge slots
    if (r.chance(1, 7))
        s.a.push_back(1);  // a clearing call (nullopt / empty list)
    return s;
}

void gen_tracks(Plan& p, Rng& r)
{
    p.cfg.checks = CK_MODEL | CK_DIFF | CK_ROUNDTRIP | CK_RELOAD | (r.chance(1, 3) ? CK_PURITY : 0);
    int n0 = 1 + (int)r.below(3);
    for (int i = 0; i < n0; ++i)
        p.steps.push_back(mk("create_track", r, 0, draw_size(r)));
    int n = 4 + (int)r.below(14);
    std::vector<unsigned> w = {50, 12, 8, 5, 5, 5, 4, 3, 3, 3, 4};
    // swarm: zero out a random subset of op kinds
    for (auto& x : w)
        if (r.chance(1, 5))
            x = 0;
    w[0] = w[0] ? w[0] : 20;
    for (int i = 0; i < n; ++i)
    {
        switch (r.weighted(w))
        {
            case 0: p.steps.push_back(track_step(r, draw_size(r))); break;
            case 1: p.steps.push_back(mk("update", r, 1, draw_size(r))); break;
            case 2: p.steps.push_back(mk("create_track", r, 0, draw_size(r))); break;
            case 3: p.steps.push_back(mk("rewrite", r, 1, 1)); break;
            case 4: p.steps.push_back(mk("remove_track", r, 1, 1)); break;
            case 5: p.steps.push_back(mk("reload", r, 1, 1)); break;
            case 6: p.steps.push_back(mk("clock", r, 1, 1)); break;
            case 7: p.steps.push_back(mk("create_root", r, 0, 1)); break;
            case 8: p.steps.push_back(mk("add_track", r, 3, 1)); break;
            case 9: p.steps.push_back(mk("create_sub", r, 1, 1)); break;
            case 10: p.steps.push_back(mk("f_unanalyse", r, 1, 1)); break;  // on-disk 1.x only; a no-op elsewhere
        }
    }
}

void gen_crates(Plan& p, Rng& r)
{
    p.cfg.checks = CK_MODEL | CK_DIFF | CK_RELOAD | (r.chance(1, 3) ? CK_PURITY : 0);
    int n = 4 + (int)r.below(16);
    std::vector<unsigned> w = {20, 22, 8, 10, 10, 16, 8, 3, 2, 2, 3};
    for (auto& x : w)
        if (r.chance(1, 6))
            x = 0;
    w[0] = w[0] ? w[0] : 10;
    w[1] = w[1] ? w[1] : 10;
    int creates = 0;
    p.steps.push_back(mk("create_root", r, 0, 1));
    for (int i = 0; i < n; ++i)
    {
        size_t k = r.weighted(w);
        if (k <= 3 && creates >= 7)
            k = 4 + r.below(3);  // keep forests small
        switch (k)
        {
            case 0: p.steps.push_back(mk("create_root", r, 0, 1)); ++creates; break;
            case 1: p.steps.push_back(mk("create_sub", r, 1, 1)); ++creates; break;
            case 2: p.steps.push_back(mk("create_root_after", r, 1, 1)); ++creates; break;
            case 3: p.steps.push_back(mk("create_sub_after", r, 3, 1)); ++creates; break;
            case 4: p.steps.push_back(mk("set_name", r, 1, 1)); break;
            case 5:
            {
                Step s = mk("set_parent", r, 2, 1);
                if (r.chance(1, 5))
                    s.a[1] = -1;  // to root
                p.steps.push_back(s);
                break;
            }
            case 6: p.steps.push_back(mk("remove_crate", r, 1, 1)); break;
            case 7: p.steps.push_back(mk("reload", r, 1, 1)); break;
            case 8: p.steps.push_back(mk("create_track", r, 0, 1)); break;
            case 9: p.steps.push_back(mk("add_track", r, 3, 1)); break;
            case 10: p.steps.push_back(mk("clock", r, 1, 1)); break;
        }
    }
}

void gen_members(Plan& p, Rng& r)
{
    p.cfg.checks = CK_MODEL | CK_DIFF | CK_RELOAD | (r.chance(1, 3) ? CK_PURITY : 0);
    // id-skew prologue: make track ids, crate ids and membership-row ids diverge
    int nt = 1 + (int)r.below(4);
    for (int i = 0; i < nt; ++i)
        p.steps.push_back(mk("create_track", r, 0, r.chance(1, 4) ? 1 : 0));
    int kill = (int)r.below(nt);
    for (int i = 0; i < kill; ++i)
        p.steps.push_back(mk("remove_track", r, 1, 1));
    p.steps.push_back(mk("create_track", r, 0, 0));
    int nc = 1 + (int)r.below(3);
    for (int i = 0; i < nc; ++i)
        p.steps.push_back(mk(r.chance(1, 3) ? "create_sub" : "create_root", r, 1, 1));
    if (r.chance(1, 2))
    {
        p.steps.push_back(mk("add_track", r, 3, 1));
        p.steps.push_back(mk("clear", r, 1, 1));
    }
    int n = 5 + (int)r.below(16);
    std::vector<unsigned> w = {36, 18, 6, 8, 8, 6, 6, 4, 3};
    for (auto& x : w)
        if (r.chance(1, 6))
            x = 0;
    w[0] = w[0] ? w[0] : 20;
    for (int i = 0; i < n; ++i)
    {
        switch (r.weighted(w))
        {
            case 0: p.steps.push_back(mk("add_track", r, 3, 1)); break;
            case 1: p.steps.push_back(mk("remove_from", r, 2, 1)); break;
            case 2: p.steps.push_back(mk("clear", r, 1, 1)); break;
            case 3: p.steps.push_back(mk("create_track", r, 0, 0)); break;
            case 4: p.steps.push_back(mk("remove_track", r, 1, 1)); break;
            case 5: p.steps.push_back(mk(r.chance(1, 2) ? "create_root" : "create_sub", r, 1, 1)); break;
            case 6: p.steps.push_back(mk("remove_crate", r, 1, 1)); break;
            case 7: p.steps.push_back(mk("reload", r, 1, 1)); break;
            case 8: p.steps.push_back(mk("set_parent", r, 2, 1)); break;
        }
    }
}

void gen_mixed(Plan& p, Rng& r)
{
    p.cfg.checks = CK_MODEL | CK_DIFF | CK_RELOAD | CK_PURITY | (r.chance(1, 2) ? CK_ROUNDTRIP : 0);
    int n = 6 + (int)r.below(14);
    p.steps.push_back(mk("create_track", r, 0, draw_size(r)));
    p.steps.push_back(mk("create_root", r, 0, 1));
    static const char* ops[] = {"create_track", "update", "set", "remove_track", "create_root",
                                "create_sub", "create_sub_after", "set_name", "set_parent",
                                "remove_crate", "add_track", "remove_from", "clear", "reload", "clock",
                                "rewrite", "create_root_after", "f_unanalyse"};
    std::vector<unsigned> w = {8, 5, 20, 4, 6, 8, 4, 4, 6, 4, 10, 5, 2, 4, 3, 2, 3, 2};
    for (auto& x : w)
        if (r.chance(1, 5))
            x = 0;
    w[2] = w[2] ? w[2] : 5;
    for (int i = 0; i < n; ++i)
    {
        size_t k = r.weighted(w);
        if (std::string(ops[k]) == "set")
            p.steps.push_back(track_step(r, draw_size(r)));
        else
        {
            Step s = mk(ops[k], r, 3, draw_size(r));
            if (s.op == "set_parent" && r.chance(1, 5))
                s.a[1] = -1;
            p.steps.push_back(s);
        }
    }
}
void gen_table(Plan& p, Rng& r, bool hostile)
{
    p.cfg.schema = 11 + (int)r.below(7);
    p.cfg.table_api = true;
    p.cfg.checks = CK_TABLE | CK_RELOAD | (r.chance(1, 4) ? CK_PURITY : 0);
    p.cfg.gf.many_slots = hostile;  // blob values outside the encodable domain (long labels, non-finite doubles)
    int n = 5 + (int)r.below(16);
    p.steps.push_back(mk("t_add", r, 0, draw_size(r)));
    std::vector<unsigned> w = {14, 8, 30, 5, 5, 3, 10, 9, 5, 8, 4, 2, 3, 2, 3};
    for (auto& x : w)
        if (r.chance(1, 6))
            x = 0;
    static const char* ops[] = {"t_add", "t_update", "t_setcol", "t_remove", "t_rewrite", "t_missing", "p_add",
                                "p_update", "p_remove", "e_add", "e_remove", "e_clear", "reload", "clock", "i_played"};
    for (int i = 0; i < n; ++i)
        p.steps.push_back(mk(ops[r.weighted(w)], r, 4, draw_size(r)));
}

void gen_foreign(Plan& p, Rng& r)
{
    // C04 / C02 converse: 2.x on-disk library shared with the foreign writer
    p.cfg.schema = 11 + (int)r.below(7);
    p.cfg.on_disk = true;
    p.cfg.table_api = true;
    p.cfg.checks = CK_FOREIGN;
    p.cfg.gf.rich = r.chance(2, 3);
    int n0 = 1 + (int)r.below(2);
    for (int i = 0; i < n0; ++i)
        p.steps.push_back(mk("create_track", r, 0, 1 + (int)r.below(2)));
    p.steps.push_back(mk("f_write", r, 1, draw_size(r)));
    static const char* ops[] = {"f_set", "f_rmw_t", "f_rmw_col", "f_write", "f_mutate", "reload", "create_track", "clock"};
    std::vector<unsigned> w = {44, 9, 12, 10, 8, 4, 3, 2};
    int n = 5 + (int)r.below(12);
    for (int i = 0; i < n; ++i)
    {
        size_t k = r.weighted(w);
        Step s = mk(ops[k], r, 4, draw_size(r));
        if (s.op == "f_set")
        {
            // bias to the setters that own a piece of performance data
            static const int perf[] = {F_AVERAGE_LOUDNESS, F_BEATGRID, F_HOT_CUES, F_KEY, F_LOOPS, F_MAIN_CUE, F_SAMPLE_COUNT,
                                       F_SAMPLE_RATE, F_WAVEFORM, F_HOT_CUE_AT, F_LOOP_AT, F_HOT_CUE_AT, F_LOOP_AT, F_MAIN_CUE};
            if (r.chance(3, 4))
                s.a[1] = perf[r.below(sizeof perf / sizeof *perf)];
            else
                s.a[1] = (int64_t)r.below(F_COUNT);
        }
        p.steps.push_back(s);
    }
}

void gen_corruptgrid(Plan& p, Rng& r, uint64_t index)
{
    // C05, systematic part: (schema, blob kind, damage mode) stratified by the run index
    p.cfg.on_disk = true;
    p.cfg.checks = CK_FOREIGN;
    p.cfg.schema = (int)(index % 18);
    p.cfg.table_api = p.cfg.schema >= 11;
    p.cfg.gf.rich = true;
    p.cfg.gf.long_labels = false;
    p.cfg.gf.many_slots = false;
    p.cfg.gf.odd_grids = false;
    p.cfg.gf.no_path = false;
    p.cfg.gf.big = r.chance(1, 3);  // large, poorly compressible blobs: stored cells longer than the 16 KiB input chunk
    p.steps.push_back(mk("create_track", r, 0, p.cfg.gf.big ? 3 : 1 + (int)r.below(2)));
    if (p.cfg.schema >= 11 && r.chance(1, 2))
        p.steps.push_back(mk("f_write", r, 1, p.cfg.gf.big ? 3 : 1));
    uint64_t k = index / 18;
    for (int i = 0; i < 3; ++i)
    {
        Step s = mk("f_grid", r, 3, 1);
        s.a[1] = (int64_t)((k + (uint64_t)i) % 6);
        s.a[2] = (int64_t)((k / 6 + (uint64_t)i * 2) % 5);
        p.steps.push_back(s);
    }
}

void gen_cross(Plan& p, Rng& r)
{
    // the public track / crate API and the public 2.x table API acting in turn on one library
    p.cfg.schema = 11 + (int)r.below(7);
    p.cfg.table_api = true;
    p.cfg.checks = CK_MODEL | CK_DIFF | CK_TABLE | CK_RELOAD | (r.chance(1, 3) ? CK_PURITY : 0);
    p.cfg.gf.nul_bytes = false;
    p.steps.push_back(mk("create_track", r, 0, 1));
    p.steps.push_back(mk("create_root", r, 0, 1));
    static const char* ops[] = {"t_add", "t_update", "t_setcol", "t_remove", "p_add", "p_update", "p_remove", "e_add", "e_remove", "e_clear",
                                "create_track", "set", "remove_track", "create_root", "create_sub", "create_sub_after", "set_name",
                                "set_parent", "remove_crate", "add_track", "remove_from", "clear", "reload", "rewrite", "update",
                                "i_played"};
    std::vector<unsigned> w = {8, 4, 10, 4, 10, 8, 4, 8, 4, 2, 5, 12, 3, 4, 6, 4, 3, 6, 4, 8, 4, 2, 3, 2, 3, 2};
    for (auto& x : w)
        if (r.chance(1, 6))
            x = 0;
    int n = 8 + (int)r.below(16);
    for (int i = 0; i < n; ++i)
    {
        size_t k = r.weighted(w);
        if (std::string(ops[k]) == "set")
            p.steps.push_back(track_step(r, draw_size(r)));
        else
        {
            Step s = mk(ops[k], r, 4, draw_size(r));
            if (s.op == "set_parent" && r.chance(1, 5))
                s.a[1] = -1;
            p.steps.push_back(s);
        }
    }
}

void gen_foreign1(Plan& p, Rng& r)
{
    // C02 converse on schema 1.x: the independent encoder writes, the public track API reads
    p.cfg.schema = (int)r.below(11);
    p.cfg.on_disk = true;
    // ... and the single-field setters act on tracks whose performance data another program wrote (default != adjusted
    // grid and main cue, more or fewer than 8 slots, is-set flags of their own): C06's differential checks apply as ever
    p.cfg.checks = CK_FOREIGN | CK_DIFF;
    p.cfg.gf.rich = r.chance(1, 2);
    p.steps.push_back(mk("create_track", r, 0, 1));
    if (r.chance(1, 2))
        p.steps.push_back(mk("create_track", r, 0, 1 + (int)r.below(2)));
    int n = 3 + (int)r.below(8);
    for (int i = 0; i < n; ++i)
    {
        unsigned k = r.below(12);
        if (k == 0)
            p.steps.push_back(mk("reload", r, 1, 1));
        else if (k <= 4)
            p.steps.push_back(track_step(r, 1));
        else
            p.steps.push_back(mk("f_write1", r, 1, draw_size(r)));
    }
}

void gen_corrupt(Plan& p, Rng& r)
{
    // C05: damage to stored bytes at arbitrary instants, then every reader
    p.cfg.on_disk = true;
    p.cfg.checks = CK_FOREIGN;
    p.cfg.table_api = p.cfg.schema >= 11;
    p.cfg.gf.rich = r.chance(3, 4);
    p.cfg.gf.long_labels = false;
    p.cfg.gf.many_slots = false;
    p.cfg.gf.odd_grids = false;
    p.cfg.gf.no_path = false;
    int n0 = 1 + (int)r.below(2);
    for (int i = 0; i < n0; ++i)
        p.steps.push_back(mk("create_track", r, 0, 1 + (int)r.below(3)));
    if (p.cfg.schema >= 11 && r.chance(1, 2))
        p.steps.push_back(mk("f_write", r, 1, draw_size(r)));
    int n = 10 + (int)r.below(30);
    for (int i = 0; i < n; ++i)
    {
        unsigned k = r.below(40);
        if (k == 0)
            p.steps.push_back(mk("f_pageflip", r, 1, 1));
        else if (k == 1)
            p.steps.push_back(mk("reload", r, 1, 1));
        else
        {
            Step s = mk("f_corrupt", r, 4, 1);
            s.a[0] &= 1023;
            if (r.chance(1, 12))
                s.a[0] |= 1024;  // found after a restart
            if (r.chance(1, 20))
                s.a[0] |= 2048;  // left in place
            s.a[3] = (int64_t)r.below(1u << 20);
            p.steps.push_back(s);
        }
    }
}

void gen_detect(Plan& p, Rng& r)
{
    // C13: version triple / variant marker / layout rewritten between close and reload
    p.cfg.on_disk = true;
    p.cfg.checks = CK_RELOAD;
    p.cfg.table_api = false;
    if (r.chance(1, 3))
        p.cfg.schema = 9 + (int)r.below(2);  // both 1.18.0 variants get extra weight
    if (r.chance(1, 2))
        p.steps.push_back(mk("create_track", r, 0, 0));
    if (r.chance(1, 2))
        p.steps.push_back(mk("create_root", r, 0, 1));
    int n = 3 + (int)r.below(8);
    for (int i = 0; i < n; ++i)
        p.steps.push_back(mk("x_version", r, 4, 1));
}

void gen_drift(Plan& p, Rng& r, uint64_t index)
{
    // C17: one structural edit by the second party while closed, then verify()
    p.cfg.on_disk = true;
    p.cfg.checks = CK_RELOAD;
    p.cfg.table_api = false;
    p.cfg.schema = (int)(index % 18);  // stratified: every schema gets its share
    if (r.chance(1, 2))
        p.steps.push_back(mk("create_track", r, 0, 1));
    if (r.chance(1, 2))
        p.steps.push_back(mk("create_root", r, 0, 1));
    int n = 6 + (int)r.below(10);
    for (int i = 0; i < n; ++i)
    {
        Step s = mk("x_drift", r, 4, 1);
        s.a[1] = (int64_t)((index / 18 + (uint64_t)i) % 19) + 19 * (int64_t)r.below(50);  // edit kinds in rotation
        p.steps.push_back(s);
    }
}

void gen_hostile(Plan& p, Rng& r)
{
    // C15: ordinary operations mixed with hostile ones; values come from the
    // hostile generator flags (more than 8 slots, NUL bytes, long labels)
    p.cfg.checks = CK_MODEL | CK_HOSTILE;
    p.cfg.gf.many_slots = true;
    p.cfg.gf.nul_bytes = true;
    p.cfg.gf.long_labels = true;
    p.cfg.gf.big = r.chance(1, 3);
    int n = 8 + (int)r.below(16);
    p.steps.push_back(mk("create_track", r, 0, draw_size(r)));
    p.steps.push_back(mk("create_root", r, 0, 1));
    p.steps.push_back(mk("create_sub", r, 1, 1));
    static const char* ops[] = {"h_index", "h_waveform", "h_snapshot", "h_lookup", "h_after", "h_stale_track",
                                "h_stale_crate", "h_names", "create_track", "update", "set", "remove_track",
                                "create_root", "create_sub", "create_sub_after", "set_name", "set_parent",
                                "remove_crate", "add_track", "remove_from", "clear", "reload", "rewrite", "obs_fault"};
    std::vector<unsigned> w = {12, 6, 10, 5, 6, 8, 8, 4, 6, 4, 12, 6, 3, 6, 3, 2, 6, 6, 5, 2, 1, 2, 2, 3};
    for (auto& x : w)
        if (r.chance(1, 5))
            x = 0;
    for (int i = 0; i < n; ++i)
    {
        size_t k = r.weighted(w);
        if (std::string(ops[k]) == "set")
            p.steps.push_back(track_step(r, draw_size(r)));
        else
        {
            Step s = mk(ops[k], r, 3, draw_size(r));
            if (s.op == "set_parent" && r.chance(1, 5))
                s.a[1] = -1;
            p.steps.push_back(s);
        }
    }
}

void gen_atomic(Plan& p, Rng& r, uint64_t index)
{
    p.cfg.on_disk = true;
    p.cfg.checks = CK_MODEL | CK_DIFF;
    p.cfg.gf.long_labels = false;
    p.cfg.gf.empty_labels = false;
    p.cfg.gf.odd_grids = false;
    p.cfg.gf.no_path = false;
    p.cfg.gf.big = r.chance(1, 6);
    p.cfg.gf.rich = !r.chance(1, 4);  // mostly fully analysed tracks: conditional statements of setters all run
    if (p.cfg.schema >= 11)
        p.cfg.table_api = true;  // 2.x: opened through engine_library, so that the observation can include the table API's view
    // prefix: a short fault-free history
    int n = 2 + (int)r.below(7);
    p.steps.push_back(mk("create_track", r, 0, draw_size(r)));
    p.steps.push_back(mk("create_root", r, 0, 1));
    static const char* pre[] = {"create_track", "create_root", "create_sub", "add_track",
                                "set", "set_parent", "create_sub_after", "update", "remove_from"};
    std::vector<unsigned> wp = {10, 8, 12, 14, 10, 5, 5, 3, 2};
    {
        // the probe kind is known in advance (stratified by the run index, see below): crate and membership probes get
        // a pre-state with a real forest - several siblings under one parent, sub-crates, members - the way setter
        // probes get fully analysed tracks; moving, renaming or removing the only crate of a library runs few statements
        const uint64_t kind = index % 51;
        const bool rich_forest = !r.chance(1, 4);
        if (rich_forest && kind >= 3 && kind <= 9)
        {
            wp = {3, 14, 22, 8, 0, 4, 10, 0, 1};
            n = 5 + (int)r.below(6);
        }
        else if (rich_forest && ((kind >= 10 && kind <= 12) || kind >= 45))
        {
            wp = {10, 8, 10, 30, 0, 2, 4, 0, 3};
            n = 6 + (int)r.below(6);
        }
    }
    for (int i = 0; i < n; ++i)
    {
        size_t k = r.weighted(wp);
        if (std::string(pre[k]) == "set")
            p.steps.push_back(track_step(r, draw_size(r)));
        else
            p.steps.push_back(mk(pre[k], r, 3, draw_size(r)));
    }
    // probe: every public mutating operation, stratified by the run index so
    // that even a small batch visits every operation and every field setter
    static const char* probes[] = {"create_track", "update", "remove_track", "create_root",
                                   "create_root_after", "create_sub", "create_sub_after", "set_name",
                                   "set_parent", "remove_crate", "add_track", "remove_from", "clear"};
    static const char* tprobes[] = {"t_add", "t_update", "t_remove", "t_setcol", "t_setcol", "p_add", "p_update",
                                    "p_remove", "e_add", "e_remove", "e_clear"};
    const uint64_t n_plain = sizeof probes / sizeof *probes, n_set = 27, n_table = sizeof tprobes / sizeof *tprobes;
    uint64_t kind = index % (n_plain + n_set + n_table);
    if (kind >= n_plain + n_set)
    {
        // 2.x table API on the same connection (actor T)
        p.cfg.schema = 11 + (int)r.below(7);
        p.cfg.table_api = true;
        p.steps.push_back(mk(tprobes[kind - n_plain - n_set], r, 4, draw_size(r)));
    }
    else if (kind >= n_plain)
    {
        Step s = mk("set", r, 4, draw_size(r));
        uint64_t f = kind - n_plain;  // 0..24: fields, 25: hot_cue_at, 26: loop_at
        s.a[1] = f < 25 ? (int64_t)f : (f == 25 ? F_HOT_CUE_AT : F_LOOP_AT);
        if (s.a[1] == F_FILE_BYTES)
            s.a[1] = F_TITLE;
        if ((index / (n_plain + n_set + n_table)) % 3 == 1)
            s.a.push_back(1);  // every third round: the clearing form of the setter
        p.steps.push_back(s);
    }
    else
    {
        Step s = mk(probes[kind], r, 3, draw_size(r));
        if (s.op == "set_parent" && r.chance(1, 5))
            s.a[1] = -1;
        p.steps.push_back(s);
    }
}
}  // namespace

std::vector<std::string> all_profiles()
{
    return {"tracks", "crates", "members", "mixed"};
}

Plan generate_plan(const std::string& profile_in, uint64_t seed, uint64_t index)
{
    Plan p;
    p.seed = seed;
    Rng r(seed);
    common_config(p, r);
    p.cfg.profile = profile_in;
    // one library in six is addressed by a directory string with a trailing separator (derived from the seed, not drawn:
    // the plans of earlier sessions keep their digests otherwise)
    p.cfg.dir_slash = ((seed * 0x9E3779B97F4A7C15ull) >> 40) % 6 == 0;
    // profile = base[2][_disk|_pure]
    std::string profile = profile_in;
    bool disk = false, pure = false, only_v2 = false, aud = false;
    auto strip = [&](const std::string& suf) {
        if (profile.size() > suf.size() &&
            profile.compare(profile.size() - suf.size(), suf.size(), suf) == 0)
        {
            profile.erase(profile.size() - suf.size());
            return true;
        }
        return false;
    };
    bool twice = strip("_twice");
    bool faulty = strip("_faulty");
    aud = strip("_audit");
    disk = strip("_disk");
    pure = strip("_pure");
    only_v2 = strip("2");
    if (only_v2)
        p.cfg.schema = 11 + (int)r.below(7);
    if (disk)
        p.cfg.on_disk = true;
    if (profile == "tracks")
        gen_tracks(p, r);
    else if (profile == "crates")
        gen_crates(p, r);
    else if (profile == "members")
        gen_members(p, r);
    else if (profile == "mixed")
        gen_mixed(p, r);
    else if (profile == "atomic" || profile == "atomic_chain")
        gen_atomic(p, r, index);  // atomic_chain: same (state, call) pairs, four times as many fault sequences per pair
    else if (profile == "table")
        gen_table(p, r, false);
    else if (profile == "tableh")
        gen_table(p, r, true);
    else if (profile == "foreign")
        gen_foreign(p, r);
    else if (profile == "corruptgrid")
        gen_corruptgrid(p, r, index);
    else if (profile == "cross")
        gen_cross(p, r);
    else if (profile == "foreign1")
        gen_foreign1(p, r);
    else if (profile == "corrupt")
        gen_corrupt(p, r);
    else if (profile == "detect")
        gen_detect(p, r);
    else if (profile == "drift")
        gen_drift(p, r, index);
    else if (profile == "hostile")
        gen_hostile(p, r);
    else
        throw std::runtime_error("unknown profile " + profile_in);
    if (disk)
    {
        p.cfg.checks |= CK_RELOAD;
        // close and reload at seeded prefixes
        int extra = 1 + (int)r.below(3);
        for (int i = 0; i < extra; ++i)
        {
            size_t pos = 1 + r.below(p.steps.size());
            p.steps.insert(p.steps.begin() + (long)pos, mk("reload", r, 1, 1));
        }
    }
    if (disk && p.cfg.schema >= 11 && r.chance(1, 4) &&
        (profile == "crates" || profile == "members" || profile == "mixed" || profile == "cross" || profile == "table"))
    {
        // a 2.x library whose id counters are far along (second party): ids at the edges of int32 / double precision
        size_t pos = r.below(std::min<size_t>(3, p.steps.size()) + 1);
        p.steps.insert(p.steps.begin() + (long)pos, mk("f_seq", r, 2, 1));
    }
    if (pure)
        p.cfg.checks |= CK_PURITY;
    p.cfg.twice = twice;
    if (faulty)
    {
        // low-rate one-shot faults inside ordinary histories: a statement refused at its boundary (F1) or the second
        // party taking the write lock between two statements (F9).  For both, a call that throws has changed nothing,
        // so the model simply does not advance and every later check (incl. close / reload) still applies.
        // ... and inside observing calls (one or two observation rounds under fault per history)
        {
            int extra = 1 + (int)r.below(2);
            for (int i = 0; i < extra; ++i)
            {
                size_t pos = 1 + r.below(p.steps.size());
                p.steps.insert(p.steps.begin() + (long)pos, mk("obs_fault", r, 1, 1));
            }
        }
        for (auto& st : p.steps)
        {
            if (st.op == "reload" || st.op == "clock" || st.op == "obs_fault" || !r.chance(1, 6))
                continue;
            st.fault.kind = r.chance(1, 2) ? FK_STMT : FK_LOCK;
            st.fault.pos = (int64_t)r.below(r.chance(1, 2) ? 4 : 14);
            st.fault.code = 5;  // SQLITE_BUSY
            st.fault.role = (p.cfg.schema < 11 && r.chance(1, 2)) ? FR_PDB : FR_MDB;
            // calls of the track / crate API also meet real-path faults in the middle of a history (interrupt, device
            // fault - one-shot or persistent -, failed allocation); position resolved against a shadow execution
            static const char* lops[] = {"create_track", "update", "remove_track", "set", "rewrite", "create_root", "create_root_after",
                                         "create_sub", "create_sub_after", "set_name", "set_parent", "remove_crate", "add_track",
                                         "remove_from", "clear"};
            bool lop = false;
            for (auto* o : lops)
                lop = lop || st.op == o;
            if (lop && disk && r.chance(2, 5))
            {
                unsigned k = (unsigned)r.below(10);
                st.fault = FaultSpec{};
                st.fault.kind = k < 2 ? FK_TICK : k < 9 ? FK_VFS : FK_MALLOC;
                st.fault.pos = (int64_t)r.below(1000000);
                st.fault.code = (int)r.below(2);
                st.fault.persist = (st.fault.kind == FK_VFS && k >= 6) ? 1 : 0;
                st.fault.method = 0;
                st.fault.role = 0;
            }
        }
    }
    if (aud)
    {
        p.cfg.on_disk = true;
        p.cfg.checks |= CK_AUDIT;
    }
    else
        p.cfg.checks &= ~(uint32_t)CK_AUDIT;
    return p;
}

// ---- stubs for actors implemented in later files
}  // namespace djsim
