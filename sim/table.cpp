// Actor T: the schema-2.x table API on the same connection as actor L.
// Decides C18 (rows read back as written, per-column accessors), the 2.x half
// of C03 (blob structs survive store -> read or the write is rejected) and the
// table-level half of C09 (ordered listings).
#include <djinterop/engine/v2/engine_library.hpp>

#include <algorithm>
#include <list>

#include "world.hpp"
#include "tstate.hpp"

namespace djsim
{
namespace v2 = djinterop::engine::v2;
using tp = std::chrono::system_clock::time_point;


void World::TStateDeleter::operator()(TState* p) const { delete p; }

namespace
{
const char* const kOtherDbUuid = "0ddba11e-0000-4000-8000-0000000000db";
// ---- rendering of row fields
std::string hexs(const std::vector<std::byte>& b)
{
    Hasher h;
    h.bytes(b.data(), b.size());
    return "blob[" + std::to_string(b.size()) + "]#" + hex64(h.value());
}
std::string rv(int64_t v) { return std::to_string(v); }
std::string rv(int32_t v) { return std::to_string(v); }
std::string rv(bool v) { return v ? "true" : "false"; }
std::string rv(double v) { return "d" + hex64(double_bits(v)); }
std::string rv(const std::string& s) { return "s" + std::to_string(s.size()) + "#" + hex64(hash_str(s)); }
std::string rv(const tp& t)
{
    return std::to_string(std::chrono::duration_cast<std::chrono::nanoseconds>(t.time_since_epoch()).count()) + "ns";
}
template <typename T>
std::string rv(const std::optional<T>& v)
{
    return v ? rv(*v) : std::string("-");
}
// Field-by-field digest of a blob struct, independent of the library's encoder: rendering a decoded value through
// to_blob() alone would hide an encoder that maps two different values onto the same bytes.
void sh(Hasher& h, const std::vector<std::byte>& v) { h.u64(v.size()); h.bytes(v.data(), v.size()); }
void sh(Hasher& h, const dj::pad_color& c) { h.u64(((uint64_t)c.r << 24) | ((uint64_t)c.g << 16) | ((uint64_t)c.b << 8) | c.a); }
void sh(Hasher& h, const v2::track_data_blob& b)
{
    h.u64(double_bits(b.sample_rate)); h.u64((uint64_t)b.samples); h.u64((uint64_t)(int64_t)b.key);
    h.u64(double_bits(b.average_loudness_low)); h.u64(double_bits(b.average_loudness_mid)); h.u64(double_bits(b.average_loudness_high));
    sh(h, b.extra_data);
}
void sh(Hasher& h, const v2::overview_waveform_data_blob& b)
{
    h.u64(double_bits(b.samples_per_waveform_point)); h.u64(b.waveform_points.size());
    for (auto& p : b.waveform_points)
        h.u64(((uint64_t)p.low_value << 16) | ((uint64_t)p.mid_value << 8) | p.high_value);
    h.u64(((uint64_t)b.maximum_point.low_value << 16) | ((uint64_t)b.maximum_point.mid_value << 8) | b.maximum_point.high_value);
    sh(h, b.extra_data);
}
void sh(Hasher& h, const v2::beat_data_blob& b)
{
    h.u64(double_bits(b.sample_rate)); h.u64(double_bits(b.samples)); h.u64(b.is_beatgrid_set);
    for (auto* g : {&b.default_beat_grid, &b.adjusted_beat_grid})
    {
        h.u64(g->size());
        for (auto& m : *g)
        {
            h.u64(double_bits(m.sample_offset)); h.u64((uint64_t)m.beat_number); h.u64((uint64_t)(int64_t)m.number_of_beats);
            h.u64((uint64_t)(int64_t)m.unknown_value_1);
        }
    }
    sh(h, b.extra_data);
}
void sh(Hasher& h, const v2::quick_cues_blob& b)
{
    h.u64(b.quick_cues.size());
    for (auto& q : b.quick_cues)
    {
        h.str(q.label); h.u64(double_bits(q.sample_offset)); sh(h, q.color);
    }
    h.u64(double_bits(b.adjusted_main_cue)); h.u64(b.is_main_cue_adjusted ? 1 : 0); h.u64(double_bits(b.default_main_cue));
    sh(h, b.extra_data);
}
void sh(Hasher& h, const v2::loops_blob& b)
{
    h.u64(b.loops.size());
    for (auto& l : b.loops)
    {
        h.str(l.label); h.u64(double_bits(l.start_sample_offset)); h.u64(double_bits(l.end_sample_offset));
        h.u64(l.is_start_set); h.u64(l.is_end_set); sh(h, l.color);
    }
    sh(h, b.extra_data);
}
template <typename B>
std::string rblob(const B& b)
{
    Hasher h;
    sh(h, b);
    try
    {
        return hexs(b.to_blob()) + "/f" + hex64(h.value());
    }
    catch (const std::exception& e)
    {
        return std::string("!") + demangle(typeid(e).name());
    }
}
std::string rv(const v2::track_data_blob& b) { return rblob(b); }
std::string rv(const v2::overview_waveform_data_blob& b) { return rblob(b); }
std::string rv(const v2::beat_data_blob& b) { return rblob(b); }
std::string rv(const v2::quick_cues_blob& b) { return rblob(b); }
std::string rv(const v2::loops_blob& b) { return rblob(b); }

struct Col
{
    const char* name;
    int min_range;  // first column-list range that has the column
    bool blob;
    std::function<std::string(v2::track_table&, int64_t)> get;
    std::function<void(v2::track_table&, int64_t, const v2::track_row&)> set;
    std::function<std::string(const v2::track_row&)> of;
    std::function<void(v2::track_row&, const v2::track_row&)> copy;
};

#define COL(name, field, minr, isblob)                                                          \
    Col                                                                                         \
    {                                                                                           \
        #name, minr, isblob, [](v2::track_table& t, int64_t id) { return rv(t.get_##name(id)); }, \
            [](v2::track_table& t, int64_t id, const v2::track_row& s) { t.set_##name(id, s.field); }, \
            [](const v2::track_row& r) { return rv(r.field); },                                 \
            [](v2::track_row& d, const v2::track_row& s) { d.field = s.field; }                 \
    }

const std::vector<Col>& columns()
{
    static const std::vector<Col> cols = {
        COL(play_order, play_order, 0, false),
        COL(length, length, 0, false),
        COL(bpm, bpm, 0, false),
        COL(year, year, 0, false),
        COL(path, path, 0, false),
        COL(filename, filename, 0, false),
        COL(bitrate, bitrate, 0, false),
        COL(bpm_analyzed, bpm_analyzed, 0, false),
        COL(album_art_id, album_art_id, 0, false),
        COL(file_bytes, file_bytes, 0, false),
        COL(title, title, 0, false),
        COL(artist, artist, 0, false),
        COL(album, album, 0, false),
        COL(genre, genre, 0, false),
        COL(comment, comment, 0, false),
        COL(label, label, 0, false),
        COL(composer, composer, 0, false),
        COL(remixer, remixer, 0, false),
        COL(key, key, 0, false),
        COL(rating, rating, 0, false),
        COL(album_art, album_art, 0, false),
        COL(time_last_played, time_last_played, 0, false),
        COL(is_played, is_played, 0, false),
        COL(file_type, file_type, 0, false),
        COL(is_analyzed, is_analyzed, 0, false),
        COL(date_created, date_created, 0, false),
        COL(date_added, date_added, 0, false),
        COL(is_available, is_available, 0, false),
        COL(is_metadata_of_packed_track_changed, is_metadata_of_packed_track_changed, 0, false),
        COL(is_performance_data_of_packed_track_changed, is_performance_data_of_packed_track_changed, 0, false),
        COL(played_indicator, played_indicator, 0, false),
        COL(is_metadata_imported, is_metadata_imported, 0, false),
        COL(pdb_import_key, pdb_import_key, 0, false),
        COL(streaming_source, streaming_source, 0, false),
        COL(uri, uri, 0, false),
        COL(is_beat_grid_locked, is_beat_grid_locked, 0, false),
        COL(origin_database_uuid, origin_database_uuid, 0, false),
        COL(origin_track_id, origin_track_id, 0, false),
        COL(track_data, track_data, 0, true),
        COL(overview_waveform_data, overview_waveform_data, 0, true),
        COL(beat_data, beat_data, 0, true),
        COL(quick_cues, quick_cues, 0, true),
        COL(loops, loops, 0, true),
        COL(third_party_source_id, third_party_source_id, 0, false),
        COL(streaming_flags, streaming_flags, 0, false),
        COL(explicit_lyrics, explicit_lyrics, 0, false),
        COL(active_on_load_loops, active_on_load_loops, 1, false),
    };
    return cols;
}

// ---- generators
std::vector<std::byte> gen_extra(Rng& r, int size)
{
    std::vector<std::byte> v;
    size_t n;
    switch (r.below(6))
    {
        case 0:
        case 1:
        case 2: n = 0; break;
        case 3: n = 9; break;
        case 4: n = 1 + r.below(8); break;
        default: n = size >= 2 ? r.below(64) : 3; break;
    }
    bool zeros = r.chance(1, 2);
    for (size_t i = 0; i < n; ++i)
        v.push_back(zeros ? std::byte{0} : (std::byte)r.below(256));
    return v;
}
double gen_any_double(Rng& r, bool allow_nonfinite)
{
    GenFlags f;
    f.nonfinite = allow_nonfinite;
    return gen_double(r, f);
}
std::string gen_blob_label(Rng& r, int size, bool allow_long)
{
    switch (r.below(10))
    {
        case 0: return "";
        case 1: return gen_bytes(r, 255, false);
        case 2: return allow_long ? gen_bytes(r, 256, false) : "x";
        case 3: return allow_long && size >= 2 ? gen_bytes(r, 300, false) : "y";
        case 4: return gen_bytes(r, 1 + r.below(30), false);  // arbitrary bytes
        default: return "Cue " + std::to_string(r.below(50));
    }
}

v2::beat_data_blob gen_beat(Rng& r, int size, bool nf)
{
    v2::beat_data_blob b{};
    b.sample_rate = gen_any_double(r, nf);
    b.samples = gen_any_double(r, nf);
    static const uint8_t flags[] = {0, 1, 1, 2, 255};
    b.is_beatgrid_set = flags[r.below(5)];
    auto grid = [&](size_t n) {
        std::vector<v2::beat_grid_marker_blob> g;
        int64_t beat = r.range(-8, 8);
        double off = (double)r.range(-1000, 1000);
        for (size_t i = 0; i < n; ++i)
        {
            v2::beat_grid_marker_blob m{};
            m.sample_offset = r.chance(1, 10) ? gen_any_double(r, nf) : off;
            m.beat_number = r.chance(1, 12) ? (int64_t)r.next() : beat;
            m.number_of_beats = (int32_t)r.range(0, 64);
            m.unknown_value_1 = r.chance(1, 3) ? (int32_t)r.next() : 0;
            g.push_back(m);
            beat += r.range(1, 64);
            off += (double)r.range(1, 100000);
        }
        return g;
    };
    size_t n;
    switch (r.below(8))
    {
        case 0: n = 0; break;
        case 1: n = 1; break;
        case 2: n = 2; break;
        case 3: n = size >= 3 ? 700 + r.below(700) : 5; break;
        default: n = r.below(12); break;
    }
    b.adjusted_beat_grid = grid(n);
    b.default_beat_grid = r.chance(1, 2) ? b.adjusted_beat_grid : grid(r.below(6));
    b.extra_data = gen_extra(r, size);
    return b;
}
v2::quick_cues_blob gen_cues(Rng& r, int size, bool nf, bool allow_long)
{
    v2::quick_cues_blob q{};
    size_t n = r.chance(1, 2) ? 8 : r.below(13);
    for (size_t i = 0; i < n; ++i)
    {
        v2::quick_cue_blob c{};
        c.label = gen_blob_label(r, size, allow_long);
        c.sample_offset = r.chance(1, 4) ? -1.0 : gen_any_double(r, nf);
        c.color = gen_color(r);
        q.quick_cues.push_back(c);
    }
    q.adjusted_main_cue = gen_any_double(r, nf);
    q.default_main_cue = r.chance(1, 2) ? q.adjusted_main_cue : gen_any_double(r, nf);
    q.is_main_cue_adjusted = r.chance(1, 2);
    q.extra_data = gen_extra(r, size);
    return q;
}
v2::loops_blob gen_loops_blob(Rng& r, int size, bool nf, bool allow_long)
{
    v2::loops_blob l{};
    size_t n = r.chance(1, 2) ? 8 : r.below(13);
    static const uint8_t flags[] = {0, 1, 1, 2, 255};
    for (size_t i = 0; i < n; ++i)
    {
        v2::loop_blob x{};
        x.label = gen_blob_label(r, size, allow_long);
        x.start_sample_offset = r.chance(1, 4) ? -1.0 : gen_any_double(r, nf);
        x.end_sample_offset = r.chance(1, 4) ? -1.0 : gen_any_double(r, nf);
        x.is_start_set = flags[r.below(5)];
        x.is_end_set = flags[r.below(5)];
        x.color = gen_color(r);
        l.loops.push_back(x);
    }
    l.extra_data = gen_extra(r, size);
    return l;
}
v2::overview_waveform_data_blob gen_overview(Rng& r, int size, bool nf)
{
    v2::overview_waveform_data_blob o{};
    o.samples_per_waveform_point = gen_any_double(r, nf);
    size_t n;
    switch (r.below(6))
    {
        case 0: n = 0; break;
        case 1: n = 1024; break;
        case 2: n = 1; break;
        case 3: n = size >= 3 ? 6000 + r.below(4000) : 10; break;
        default: n = r.below(40); break;
    }
    for (size_t i = 0; i < n; ++i)
    {
        uint64_t x = r.next();
        o.waveform_points.push_back({(uint8_t)x, (uint8_t)(x >> 8), (uint8_t)(x >> 16)});
    }
    uint64_t x = r.next();
    o.maximum_point = {(uint8_t)x, (uint8_t)(x >> 8), (uint8_t)(x >> 16)};
    o.extra_data = gen_extra(r, size);
    return o;
}
v2::track_data_blob gen_track_data(Rng& r, int size, bool nf)
{
    v2::track_data_blob t{};
    t.sample_rate = gen_any_double(r, nf);
    static const int64_t ss[] = {0, 1, -1, INT64_MAX, INT64_MIN, 44100 * 300};
    t.samples = ss[r.below(6)];
    static const int32_t ks[] = {0, 1, 23, 24, -1, INT32_MAX, INT32_MIN};
    t.key = ks[r.below(7)];
    t.average_loudness_low = gen_any_double(r, nf);
    t.average_loudness_mid = gen_any_double(r, nf);
    t.average_loudness_high = gen_any_double(r, nf);
    t.extra_data = gen_extra(r, size);
    return t;
}

std::optional<std::string> gen_col_string(Rng& r, const char* tag, uint64_t u)
{
    switch (r.below(9))
    {
        case 0: return std::nullopt;
        case 1: return std::string{};
        case 2: return gen_utf8(r, 3) + tag;
        case 6:  // arbitrary strings: embedded NUL, bytes that are not UTF-8, long
            return std::string(tag) + std::string("\0mid\0", 5) + std::to_string(u);
        case 7: return std::string(tag) + "\xff\xfe\xc3(" + std::to_string(u) + ")";
        case 8: return std::string(tag) + "-" + std::to_string(u) + "-" + gen_bytes(r, r.chance(1, 4) ? 70000 : 300, true);
        default: return std::string(tag) + "-" + std::to_string(u) + "-" + gen_bytes(r, 1 + r.below(6), true);
    }
}
std::optional<int64_t> gen_col_int(Rng& r, int64_t distinct)
{
    switch (r.below(8))
    {
        case 0: return std::nullopt;
        case 1: return (int64_t)0;
        case 2: return INT64_MAX;
        case 3: return INT64_MIN;
        default: return distinct * 1000 + (int64_t)r.below(1000);
    }
}
tp gen_tp(Rng& r, int64_t distinct)
{
    static const int64_t ts[] = {0, 1, 1509321800, 2147483647, 2147483648ll, 4102444800ll};
    int64_t s = r.chance(1, 3) ? ts[r.below(6)] : 1000000000 + distinct * 100000 + (int64_t)r.below(100000);
    return tp{std::chrono::seconds{s}};
}

// Pad extra_data so that the uncompressed payload is exactly a multiple of the codec's 16 KiB chunk (or one byte
// either side): the boundary of the chunked deflate / inflate loops.
void pad_to(std::vector<std::byte>& extra, size_t payload_without_extra, Rng& r)
{
    size_t k = 1 + r.below(3);
    long d = r.chance(1, 2) ? 0 : (long)r.below(3) - 1;
    long target = (long)(16384 * k) + d;
    long cur = (long)payload_without_extra;
    if (cur > target)
        target = (long)(16384 * ((cur + 16383) / 16384)) + d;
    if (target < cur)
        target += 16384;
    extra.assign((size_t)(target - cur), std::byte{0x5c});
    for (size_t i = 0; i < extra.size(); i += 7)
        extra[i] = (std::byte)r.below(256);
}

v2::track_row gen_row(uint64_t seed, int size, uint64_t uniq, bool hostile_blobs)
{
    Rng r(seed ^ 0x7AB1Eull);
    v2::track_row w{};
    w.id = v2::TRACK_ROW_ID_NONE;
    w.play_order = gen_col_int(r, 1);
    w.length = r.chance(1, 5) ? 0 : 2000 + (int64_t)r.below(1000);
    w.bpm = gen_col_int(r, 3);
    w.year = gen_col_int(r, 4);
    w.path = "tbl/row" + std::to_string(uniq) + (r.chance(1, 8) ? "" : ".mp3");
    w.filename = "fn" + std::to_string(uniq) + ".ogg";  // deliberately not derived: the table API stores what it is given
    w.bitrate = gen_col_int(r, 5);
    if (r.chance(3, 4))
    {
        // an SQL REAL column: SQLite stores -0.0 as integer 0, so -0.0 is not representable
        double v = gen_any_double(r, false);
        w.bpm_analyzed = (v == 0) ? 0.0 : v;
    }
    (void)r.chance(1, 2);
    w.album_art_id = 1;  // the default AlbumArt row: any other value would be a dangling reference supplied by the caller
    w.file_bytes = gen_col_int(r, 7);
    w.title = gen_col_string(r, "title", uniq);
    w.artist = gen_col_string(r, "artist", uniq);
    w.album = gen_col_string(r, "album", uniq);
    w.genre = gen_col_string(r, "genre", uniq);
    w.comment = gen_col_string(r, "comment", uniq);
    w.label = gen_col_string(r, "label", uniq);
    w.composer = gen_col_string(r, "composer", uniq);
    w.remixer = gen_col_string(r, "remixer", uniq);
    if (r.chance(3, 4))
        w.key = (int32_t)r.range(-1, 30);
    w.rating = r.chance(1, 4) ? 0 : 8000 + (int64_t)r.below(1000);
    w.album_art = gen_col_string(r, "art", uniq);
    if (r.chance(3, 4))
        w.time_last_played = gen_tp(r, 1);
    w.is_played = r.chance(1, 2);
    w.file_type = r.chance(1, 6) ? "" : "ft" + std::to_string(r.below(100));
    w.is_analyzed = r.chance(1, 2);
    w.date_created = gen_tp(r, 2);
    w.date_added = gen_tp(r, 3);
    w.is_available = r.chance(1, 2);
    w.is_metadata_of_packed_track_changed = r.chance(1, 2);
    w.is_performance_data_of_packed_track_changed = !w.is_metadata_of_packed_track_changed;
    w.played_indicator = gen_col_int(r, 9);
    w.is_metadata_imported = r.chance(1, 2);
    w.pdb_import_key = 10000 + (int64_t)r.below(1000);
    w.streaming_source = gen_col_string(r, "stream", uniq);
    w.uri = gen_col_string(r, "uri", uniq);
    w.is_beat_grid_locked = r.chance(1, 2);
    if (r.chance(1, 2))
    {
        w.origin_database_uuid = "";  // fixed up by the database
        w.origin_track_id = 0;
    }
    else
    {
        w.origin_database_uuid = "origin-" + std::to_string(uniq);
        w.origin_track_id = 11000 + (int64_t)uniq;
    }
    bool nf = hostile_blobs;
    w.track_data = gen_track_data(r, size, nf);
    w.overview_waveform_data = gen_overview(r, size, nf);
    w.beat_data = gen_beat(r, size, nf);
    w.quick_cues = gen_cues(r, size, nf, hostile_blobs);
    w.loops = gen_loops_blob(r, size, nf, hostile_blobs);
    if (size >= 2 && r.chance(1, 4))
    {
        // chunk-boundary payloads
        switch (r.below(4))
        {
            case 0: pad_to(w.track_data.extra_data, 44, r); break;
            case 1: pad_to(w.overview_waveform_data.extra_data, 27 + 3 * w.overview_waveform_data.waveform_points.size(), r); break;
            case 2:
                pad_to(w.beat_data.extra_data, 33 + 24 * (w.beat_data.default_beat_grid.size() + w.beat_data.adjusted_beat_grid.size()), r);
                break;
            default:
            {
                size_t n = 8 + 17;
                for (auto& c : w.quick_cues.quick_cues)
                    n += 13 + std::min<size_t>(c.label.size(), 255);
                bool ok = true;
                for (auto& c : w.quick_cues.quick_cues)
                    if (c.label.size() > 255)
                        ok = false;
                if (ok)
                    pad_to(w.quick_cues.extra_data, n, r);
                break;
            }
        }
    }
    w.third_party_source_id = gen_col_int(r, 12);
    w.streaming_flags = 13000 + (int64_t)r.below(1000);
    w.explicit_lyrics = r.chance(1, 2);
    w.active_on_load_loops = gen_col_int(r, 14);
    w.last_edit_time = gen_tp(r, 4);
    return w;
}
}  // namespace

// expected read-back of a written row
static v2::track_row expect_row(const v2::track_row& w, int64_t id, int range, const std::string& uuid)
{
    v2::track_row e = w;
    e.id = id;
    if (w.origin_track_id == 0 || w.origin_database_uuid.empty())
    {
        e.origin_track_id = id;
        e.origin_database_uuid = uuid;
    }
    if (range < 1)
        e.active_on_load_loops = std::nullopt;
    if (range < 2)
        e.last_edit_time = v2::LAST_EDIT_TIME_NONE;
    return e;
}

void World::table_check(const std::string& op, int64_t touched)
{
    auto& T = *tstate;
    auto tt = T.lib->track();
    std::string F = "v2r" + std::to_string(T.range);
    // ---- set of rows
    std::vector<int64_t> ids;
    Outcome o = call(FaultSpec{}, [&] { ids = tt.all_ids(); });
    if (o.threw)
    {
        report("C18", "C18|all_ids|" + F + "|threw", o.exc);
        return;
    }
    std::sort(ids.begin(), ids.end());
    std::vector<int64_t> exp;
    for (auto& kv : T.rows)
        exp.push_back(kv.first);
    if (ids != exp)
        report("C18", "C18|" + op + "|" + F + "|row-set", "track ids [" + ids_str(ids) + "], expected [" + ids_str(exp) + "]");
    // ---- row contents (every row: a write to one row must not change another)
    for (auto& kv : T.rows)
    {
        std::optional<v2::track_row> got;
        Outcome g = call(FaultSpec{}, [&] { got = tt.get(kv.first); });
        if (g.threw)
        {
            report("C03", "C03|" + op + "|" + F + "|stored-but-undecodable",
                   "row " + std::to_string(kv.first) + " was stored but get() throws " + g.exc + ": " + g.what);
            stop = true;
            stop_reason = "row unreadable";
            return;
        }
        if (!got)
        {
            report("C18", "C18|" + op + "|" + F + "|row-missing", "get(" + std::to_string(kv.first) + ") returns nothing");
            continue;
        }
        const v2::track_row& e = kv.second;
        if (got->id != kv.first)
            report("C18", "C18|" + op + "|" + F + "|column:id", "row id differs");
        for (auto& c : columns())
        {
            if (c.min_range > T.range)
            {
                continue;
            }
            std::string a = c.of(*got), b = c.of(e);
            if (a == b)
                continue;
            std::string which = kv.first == touched ? "column:" : "other-row:";
            if (c.blob)
                report("C03", "C03|" + op + "|" + F + "|stored-but-decodes-differently:" + c.name,
                       "row " + std::to_string(kv.first) + " blob " + c.name + " reads " + a + ", written " + b);
            report("C18", "C18|" + op + "|" + F + "|" + which + c.name,
                   "row " + std::to_string(kv.first) + " column " + c.name + " reads " + a + ", expected " + b);
        }
        if (T.range < 2 && rv(got->last_edit_time) != rv(v2::LAST_EDIT_TIME_NONE))
            report("C18", "C18|" + op + "|" + F + "|column:last_edit_time", "last_edit_time set on a schema without the column");
    }
    // ---- the Information row
    if (T.info)
    {
        std::optional<v2::information_row> gi;
        Outcome io = call(FaultSpec{}, [&] { gi = T.lib->information().get(); });
        if (io.threw)
            report("C18", "C18|" + op + "|" + F + "|information-threw", "information().get() threw " + io.exc + ": " + io.what);
        else if (gi)
        {
            auto bad = [&](const char* col, const std::string& a, const std::string& b) {
                report("C18", "C18|" + op + "|" + F + "|information:" + col,
                       std::string("Information.") + col + " reads " + a + ", expected " + b);
            };
            auto num = [&](const char* col, int64_t a, int64_t b) {
                if (a != b)
                    bad(col, std::to_string(a), std::to_string(b));
            };
            num("id", gi->id, T.info->id);
            if (gi->uuid != T.info->uuid)
                bad("uuid", gi->uuid, T.info->uuid);
            num("schemaVersionMajor", gi->schema_version_major, T.info->schema_version_major);
            num("schemaVersionMinor", gi->schema_version_minor, T.info->schema_version_minor);
            num("schemaVersionPatch", gi->schema_version_patch, T.info->schema_version_patch);
            num("currentPlayedIndiciator", gi->current_played_indicator, T.info->current_played_indicator);
            num("lastRekordBoxLibraryImportReadCounter", gi->last_rekord_box_library_import_read_counter,
                T.info->last_rekord_box_library_import_read_counter);
        }
    }
    // ---- per-column getters of the touched row
    auto it = T.rows.find(touched);
    if (it != T.rows.end())
    {
        for (auto& c : columns())
        {
            if (c.min_range > T.range)
                continue;
            std::string a;
            Outcome g = call(FaultSpec{}, [&] { a = c.get(tt, touched); });
            if (g.threw)
                report("C18", "C18|get_" + std::string(c.name) + "|" + F + "|threw", g.exc + ": " + g.what);
            else if (a != c.of(it->second))
                report("C18", "C18|get_" + std::string(c.name) + "|" + F + "|value",
                       "get_" + std::string(c.name) + " returns " + a + ", row holds " + c.of(it->second));
        }
        probes.hit("table_row_checked");
        if (check(CK_AUDIT))
            audit_table_row(touched, it->second, op);
    }
    // abstract state of the table world (for the distinct-state measure and the log)
    {
        Hasher h;
        for (auto& kv : T.rows)
        {
            h.u64((uint64_t)kv.first);
            for (auto& c : columns())
                if (c.min_range <= T.range)
                    h.str(c.of(kv.second));
        }
        for (auto& kv : T.order)
        {
            h.u64((uint64_t)kv.first);
            for (auto x : kv.second)
                h.u64((uint64_t)x);
        }
        for (auto& kv : T.ents)
        {
            h.u64((uint64_t)kv.first);
            for (auto x : kv.second)
                h.u64((uint64_t)x);
        }
        state_hashes.insert(h.value());
        log.u64(h.value());
        gate_log.str(op);
    }
    // ---- playlists
    auto pt = T.lib->playlist();
    auto et = T.lib->playlist_entity();
    std::vector<int64_t> lids;
    Outcome lo = call(FaultSpec{}, [&] { lids = pt.all_ids(); });
    if (!lo.threw)
    {
        std::sort(lids.begin(), lids.end());
        std::vector<int64_t> le;
        for (auto& kv : T.lists)
            le.push_back(kv.first);
        if (lids != le)
        {
            report("C09", "C09|" + op + "|v2|playlist-set", "playlist ids [" + ids_str(lids) + "], expected [" + ids_str(le) + "]");
            report("C18", "C18|" + op + "|" + F + "|playlist-set", "playlist ids [" + ids_str(lids) + "], expected [" + ids_str(le) + "]");
        }
    }
    auto listing = [&](int64_t parent) {
        std::vector<int64_t> v;
        Outcome c = call(FaultSpec{}, [&] {
            auto l = parent ? pt.child_ids(parent) : pt.root_ids();
            v.assign(l.begin(), l.end());
        });
        if (c.threw)
            report("C09", "C09|" + op + "|v2|listing-threw", "listing of parent " + std::to_string(parent) + " threw " + c.exc + ": " + c.what);
        return std::make_pair(!c.threw, v);
    };
    std::set<int64_t> parents{0};
    for (auto& kv : T.lists)
        parents.insert(kv.first);
    for (auto p : parents)
    {
        auto res = listing(p);
        if (!res.first)
            continue;
        auto& expo = T.order[p];
        if (res.second != expo)
        {
            auto a = res.second, b = expo;
            std::sort(a.begin(), a.end());
            std::sort(b.begin(), b.end());
            report("C09", std::string("C09|") + op + "|v2|" + (a == b ? "playlist-order" : "playlist-lost-or-duplicated"),
                   "children of " + std::to_string(p) + " = [" + ids_str(res.second) + "], expected [" + ids_str(expo) + "]");
        }
    }
    for (auto& kv : T.lists)
    {
        std::optional<v2::playlist_row> row;
        Outcome g = call(FaultSpec{}, [&] { row = pt.get(kv.first); });
        if (g.threw || !row)
        {
            report("C18", "C18|playlist.get|" + F + "|missing", "playlist " + std::to_string(kv.first) + " not readable");
            continue;
        }
        if (row->title != kv.second.title)
            report("C18", "C18|" + op + "|" + F + "|playlist-column:title", "playlist " + std::to_string(kv.first) + " title differs");
        if (row->parent_list_id != kv.second.parent)
            report("C18", "C18|" + op + "|" + F + "|playlist-column:parent", "playlist " + std::to_string(kv.first) + " parent differs");
        if (row->is_persisted != kv.second.persisted)
            report("C18", "C18|" + op + "|" + F + "|playlist-column:is_persisted", "playlist " + std::to_string(kv.first) + " is_persisted differs from the value written");
        if (row->is_explicitly_exported != kv.second.exported)
            report("C18", "C18|" + op + "|" + F + "|playlist-column:is_explicitly_exported",
                   "playlist " + std::to_string(kv.first) + " is_explicitly_exported differs from the value written");
        if (rv(row->last_edit_time) != rv(kv.second.edited))
            report("C18", "C18|" + op + "|" + F + "|playlist-column:last_edit_time",
                   "playlist " + std::to_string(kv.first) + " last_edit_time reads " + rv(row->last_edit_time) + ", written " + rv(kv.second.edited));
        {
            // next_list_id must name the successor in the sibling order (0 for the last)
            auto& sib = T.order[kv.second.parent];
            auto it = std::find(sib.begin(), sib.end(), kv.first);
            int64_t exp_next = (it != sib.end() && it + 1 != sib.end()) ? *(it + 1) : 0;
            if (it != sib.end() && row->next_list_id != exp_next)
                report("C18", "C18|" + op + "|" + F + "|playlist-column:next_list_id",
                       "playlist " + std::to_string(kv.first) + " next_list_id = " + std::to_string(row->next_list_id) + ", expected " + std::to_string(exp_next));
        }
        std::vector<int64_t> tids;
        Outcome te = call(FaultSpec{}, [&] { tids = et.track_ids(kv.first); });
        if (te.threw)
            report("C09", "C09|" + op + "|v2|entity-listing-threw", te.exc + ": " + te.what);
        std::vector<int64_t> exp_tids;
        for (auto k : T.ents[kv.first])
            exp_tids.push_back(k < 0 ? -k : k);
        if (te.threw)
            ;
        else if (tids != exp_tids)
        {
            auto a = tids, b = exp_tids;
            std::sort(a.begin(), a.end());
            std::sort(b.begin(), b.end());
            report("C09", std::string("C09|") + op + "|v2|" + (a == b ? "entity-order" : "entity-lost-or-duplicated"),
                   "entities of list " + std::to_string(kv.first) + " = [" + ids_str(tids) + "], expected [" + ids_str(exp_tids) + "]");
            if (a != b)
                report("C18", "C18|" + op + "|" + F + "|entity-set",
                       "entity rows of list " + std::to_string(kv.first) + " are not the rows written: track ids [" + ids_str(tids) + "], expected [" + ids_str(exp_tids) + "]");
        }
        else
        {
            // entity rows read back as written (C18): id, list, track, database uuid, membership reference; next = successor
            auto& seq = T.ents[kv.first];
            std::list<v2::playlist_entity_row> rows;
            Outcome gl = call(FaultSpec{}, [&] { rows = et.get_for_list(kv.first); });
            if (gl.threw || rows.size() != seq.size())
                report("C18", "C18|" + op + "|" + F + "|entity-rows", "get_for_list returns " + (gl.threw ? "an exception" : std::to_string(rows.size()) + " rows") +
                                                                          " for " + std::to_string(seq.size()) + " entries");
            else
            {
                size_t i = 0;
                for (auto it = rows.begin(); it != rows.end(); ++it, ++i)
                {
                    auto er = T.entrow.find({kv.first, seq[i]});
                    if (er == T.entrow.end())
                        continue;
                    const bool foreign = seq[i] < 0;
                    int64_t exp_next = 0;
                    if (i + 1 < seq.size())
                    {
                        auto nx = T.entrow.find({kv.first, seq[i + 1]});
                        exp_next = nx != T.entrow.end() ? nx->second.id : -1;
                    }
                    if (it->id != er->second.id)
                        report("C18", "C18|" + op + "|" + F + "|entity-column:id", "entity id differs from the one add_back returned");
                    if (it->list_id != kv.first || it->track_id != (foreign ? -seq[i] : seq[i]))
                        report("C18", "C18|" + op + "|" + F + "|entity-column:key", "entity list/track id differs");
                    if (it->database_uuid != (foreign ? std::string(kOtherDbUuid) : T.uuid))
                        report("C18", "C18|" + op + "|" + F + "|entity-column:database_uuid", "entity database uuid differs from the value written");
                    if (it->membership_reference != er->second.mref)
                        report("C18", "C18|" + op + "|" + F + "|entity-column:membership_reference",
                               "entity membership_reference reads " + std::to_string(it->membership_reference) + ", written " + std::to_string(er->second.mref));
                    if (exp_next >= 0 && it->next_entity_id != exp_next)
                        report("C18", "C18|" + op + "|" + F + "|entity-column:next_entity_id",
                               "entity next_entity_id = " + std::to_string(it->next_entity_id) + ", expected " + std::to_string(exp_next));
                    // get(list, track) names the track id only; it is unambiguous when the id occurs once
                    int64_t tid = foreign ? -seq[i] : seq[i];
                    if (std::count_if(seq.begin(), seq.end(), [&](int64_t k) { return k == tid || k == -tid; }) == 1)
                    {
                        std::optional<v2::playlist_entity_row> got;
                        Outcome ge = call(FaultSpec{}, [&] { got = et.get(kv.first, tid); });
                        if (ge.threw || !got || got->id != er->second.id)
                            report("C18", "C18|" + op + "|" + F + "|entity-get", "playlist_entity_table::get(list, track) does not return the listed entry");
                    }
                }
            }
        }
    }
}

// Everything the 2.x table API lets a caller see, as one digest: used by the C14 enumeration so that a partial
// update in a table the track / crate API does not show (the change log, say) is still an observable difference.
std::string World::table_digest()
{
    auto& T = *tstate;
    auto tt = T.lib->track();
    auto pt = T.lib->playlist();
    auto et = T.lib->playlist_entity();
    Hasher h;
    auto guard = [&](const char* what, auto&& fn) {
        Outcome o = call(FaultSpec{}, fn);
        if (o.threw)
            h.str(std::string("!") + what + ":" + o.exc);
    };
    guard("tracks", [&] {
        auto ids = tt.all_ids();
        std::sort(ids.begin(), ids.end());
        for (auto id : ids)
        {
            h.u64((uint64_t)id);
            auto row = tt.get(id);
            if (!row)
            {
                h.str("-");
                continue;
            }
            for (auto& c : columns())
                if (c.min_range <= T.range)
                    h.str(c.of(*row));
            h.str(rv(row->last_edit_time));
        }
    });
    guard("playlists", [&] {
        auto ids = pt.all_ids();
        std::sort(ids.begin(), ids.end());
        for (auto id : ids)
        {
            auto row = pt.get(id);
            if (!row)
                continue;
            h.u64((uint64_t)id);
            h.str(row->title);
            h.u64((uint64_t)row->parent_list_id);
            h.u64(row->is_persisted);
            h.u64((uint64_t)row->next_list_id);
            h.str(rv(row->last_edit_time));
            h.u64(row->is_explicitly_exported);
            for (auto& e : et.get_for_list(id))
            {
                h.u64((uint64_t)e.id);
                h.u64((uint64_t)e.track_id);
                h.str(e.database_uuid);
                h.u64((uint64_t)e.next_entity_id);
                h.u64((uint64_t)e.membership_reference);
            }
        }
    });
    guard("change_log", [&] {
        for (auto& r : T.lib->change_log().all())
        {
            h.u64((uint64_t)r.id);
            h.u64((uint64_t)r.track_id);
        }
    });
    guard("information", [&] {
        auto i = T.lib->information().get();
        h.u64((uint64_t)i.id);
        h.str(i.uuid);
        h.u64((uint64_t)i.schema_version_major);
        h.u64((uint64_t)i.schema_version_minor);
        h.u64((uint64_t)i.schema_version_patch);
        h.u64((uint64_t)i.current_played_indicator);
        h.u64((uint64_t)i.last_rekord_box_library_import_read_counter);
    });
    return hex64(h.value());
}

void World::table_read_all()
{
    auto& T = *tstate;
    auto tt = T.lib->track();
    auto pt = T.lib->playlist();
    auto et = T.lib->playlist_entity();
    auto guard = [&](auto&& fn) { (void)call(FaultSpec{}, fn); };
    std::vector<int64_t> ids;
    guard([&] { ids = tt.all_ids(); });
    for (auto id : ids)
    {
        guard([&] { (void)tt.get(id); });
        guard([&] { (void)tt.exists(id); });
        for (auto& c : columns())
            if (c.min_range <= T.range)
                guard([&] { (void)c.get(tt, id); });
    }
    guard([&] { (void)tt.exists(987654); });
    std::vector<int64_t> lids;
    guard([&] { lids = pt.all_ids(); });
    guard([&] { (void)pt.root_ids(); });
    for (auto id : lids)
    {
        guard([&] { (void)pt.get(id); });
        guard([&] { (void)pt.exists(id); });
        guard([&] { (void)pt.child_ids(id); });
        guard([&] { (void)pt.descendant_ids(id); });
        guard([&] { (void)et.track_ids(id); });
        guard([&] { (void)et.get_for_list(id); });
        guard([&] {
            auto row = pt.get(id);
            if (row)
            {
                (void)pt.find_ids(row->title);
                (void)pt.find_id(row->parent_list_id, row->title);
                (void)pt.find_root_id(row->title);
            }
        });
    }
    guard([&] { (void)T.lib->information().get(); });
}

void World::table_read_all_unguarded()
{
    auto& T = *tstate;
    auto tt = T.lib->track();
    auto pt = T.lib->playlist();
    auto et = T.lib->playlist_entity();
    auto guard = [&](auto&& fn) {
        try
        {
            fn();
        }
        catch (const std::exception&)
        {
        }
        catch (...)
        {
            report(safety_owner(), safety_owner() + "|table-read|" + fam() + "|non-std-exception", "a table-API read threw something that is not a std::exception");
        }
    };
    std::vector<int64_t> ids, lids;
    guard([&] { ids = tt.all_ids(); });
    for (auto id : ids)
    {
        guard([&] { (void)tt.get(id); });
        guard([&] { (void)tt.exists(id); });
    }
    guard([&] { lids = pt.all_ids(); });
    guard([&] { (void)pt.root_ids(); });
    for (auto id : lids)
    {
        guard([&] { (void)pt.get(id); });
        guard([&] { (void)pt.exists(id); });
        guard([&] { (void)pt.child_ids(id); });
        guard([&] { (void)pt.descendant_ids(id); });
        guard([&] { (void)et.track_ids(id); });
        guard([&] { (void)et.get_for_list(id); });
    }
    guard([&] { (void)T.lib->information().get(); });
    guard([&] { (void)T.lib->change_log().all(); });
}

// Crossover histories: the public track / crate API and the table API act on the same library in turn.  After a
// table-API write, L's reference model (tracks, forest, sibling order, membership) is rebuilt from T's row model,
// handles for new rows are obtained by id, and L's model checks then judge what the track / crate API reports
// about state the OTHER public API produced.
void World::cross_rebuild_l_model(const std::string& op)
{
    auto& T = *tstate;
    // tracks
    for (auto& sl : tracks)
        if (sl.live && !T.rows.count(sl.id))
        {
            sl.live = false;
            model.tracks.erase(sl.id);
            model.dead_tracks.insert(sl.id);
        }
    for (auto& kv : T.rows)
        if (!model.tracks.count(kv.first))
        {
            int64_t id = kv.first;
            std::optional<dj::track> h;
            Outcome o = call(FaultSpec{}, [&] { h = db->track_by_id(id); });
            if (o.threw || !h)
            {
                report("C08", "C08|track_by_id|v2|table-row-not-found", "a track row added through the table API is not found by track_by_id");
                continue;
            }
            if (model.dead_tracks.erase(id))
                for (auto& sl : tracks)
                    if (sl.id == id)
                        sl.h.reset();
            tracks.push_back({h, id, true});
            model.tracks.insert(id);
            model.issued_tracks.insert(id);
            unanalysed.insert(id);  // not written through a snapshot: the statement's normalisations apply on first rewrite
        }
    // crates
    for (auto& sl : crates)
        if (sl.live && !T.lists.count(sl.id))
            sl.live = false;
    std::vector<int64_t> gone;
    for (auto& kv : model.crates)
        if (!T.lists.count(kv.first))
            gone.push_back(kv.first);
    for (auto id : gone)
    {
        model.crates.erase(id);
        model.members.erase(id);
        model.dead_crates.insert(id);
    }
    for (auto& kv : T.lists)
    {
        int64_t id = kv.first;
        if (!model.crates.count(id))
        {
            std::optional<dj::crate> h;
            Outcome o = call(FaultSpec{}, [&] { h = db->crate_by_id(id); });
            if (o.threw || !h)
            {
                report("C07", "C07|crate_by_id|v2|table-row-not-found", "a playlist added through the table API is not found by crate_by_id");
                continue;
            }
            if (model.dead_crates.erase(id))
                for (auto& sl : crates)
                    if (sl.id == id)
                        sl.h.reset();
            crates.push_back({h, id, true});
            model.issued_crates.insert(id);
        }
        model.crates[id] = {id, kv.second.title, kv.second.parent};
    }
    model.order.clear();
    for (auto& kv : T.order)
        if (kv.first == 0 || T.lists.count(kv.first))
            model.order[kv.first] = kv.second;
    model.members.clear();
    for (auto& kv : T.ents)
        for (auto k : kv.second)
            if (k > 0)
                model.members[kv.first].push_back(k);
    if (op.compare(0, 2, "t_") == 0)
        for (auto& kv : T.rows)
            unanalysed.insert(kv.first);  // rows (re)written through the table API hold values no snapshot write produces
    free_elem.clear();
    FullObs cur = observe();
    if (check(CK_MODEL))
        check_model(cur);
    prev = cur;
    have_prev = true;
    state_hashes.insert(cur.hash());
    probes.hit("cross_model_rebuilt");
    (void)op;
}

void World::table_sync_from_db()
{
    auto& T = *tstate;
    auto tt = T.lib->track();
    auto pt = T.lib->playlist();
    auto et = T.lib->playlist_entity();
    T.rows.clear();
    T.lists.clear();
    T.order.clear();
    T.ents.clear();
    T.entrow.clear();
    Outcome o = call(FaultSpec{}, [&] {
        for (auto id : tt.all_ids())
            if (auto r = tt.get(id))
                T.rows[id] = *r;
        for (auto id : pt.all_ids())
            if (auto r = pt.get(id))
                T.lists[id] = {r->title, r->parent_list_id, r->is_persisted, r->is_explicitly_exported, r->last_edit_time};
        auto roots = pt.root_ids();
        T.order[0].assign(roots.begin(), roots.end());
        for (auto& kv : T.lists)
        {
            auto kids = pt.child_ids(kv.first);
            T.order[kv.first].assign(kids.begin(), kids.end());
            T.ents[kv.first].clear();
            for (auto& row : et.get_for_list(kv.first))
            {
                int64_t key = row.database_uuid == T.uuid ? row.track_id : -row.track_id;
                T.ents[kv.first].push_back(key);
                T.entrow[{kv.first, key}] = {row.id, row.membership_reference};
            }
        }
    });
    if (o.threw)
        note("table_sync_from_db threw " + o.exc + ": " + o.what);
}

bool World::exec_table_op(const Step& s)
{
    if (s.op.size() < 2 || (s.op[1] != '_') || (s.op[0] != 't' && s.op[0] != 'p' && s.op[0] != 'e' && s.op[0] != 'i'))
        return false;
    if (!v2 || !tstate || !tstate->lib)
    {
        note(s.op + " skipped: table API not available");
        return true;
    }
    auto& T = *tstate;
    auto arg = [&](size_t i) { return i < s.a.size() ? s.a[i] : 0; };
    auto tt = T.lib->track();
    auto pt = T.lib->playlist();
    auto et = T.lib->playlist_entity();
    std::string F = "v2r" + std::to_string(T.range);
    Rng r(s.vseed ^ 0x7AB);
    auto pick = [&](auto& m, int64_t t) -> int64_t {
        if (m.empty())
            return 0;
        auto it = m.begin();
        std::advance(it, (long)((uint64_t)t % m.size()));
        return it->first;
    };
    bool hostile = plan.cfg.gf.many_slots;  // blob shapes beyond the encodable domain
    const bool atomic = plan.cfg.profile.compare(0, 6, "atomic") == 0;
    if (atomic)
    {
        table_sync_from_db();
        // the same probe is executed many times from the same state: its generated values must not drift
        T.rowuniq = 5000 + (uint64_t)cur_step * 16;
        model_off = true;  // L's forest / membership model does not follow table-API writes

    }
    // in the C14 enumeration the verdict is the public observation before / after, not the row model
    auto finish = [&](const std::string& op, const Outcome& o, int64_t touched) {
        if (!atomic)
        {
            if (check(CK_PURITY) && !o.fault_fired)
            {
                // the read side of the table API is an observation too (C16)
                check_purity_begin();
                table_check(op, touched);
                check_purity_end("table-check");
                // the public track / crate API observing rows that the table API wrote (derived columns may be out of step)
                check_purity_begin();
                (void)observe();
                check_purity_end("observe-after-table-write");
                purity_extras();
                probes.hit("purity_checked");
            }
            else
                table_check(op, touched);
            if (check(CK_AUDIT) && !o.fault_fired && !stop)
                audit();  // raw chains, integrity, foreign keys, blobs after table-API writes too (C11)
            if (plan.cfg.profile.compare(0, 5, "cross") == 0 && !stop)
                cross_rebuild_l_model(op);
            return;
        }
        StepEffect e;
        e.op = op;
        e.out = o;
        e.prop = "C14";
        e.fault = s.fault;
        e.raw = true;
        e.expect_unchanged = o.threw;
        after_step(e);
    };

    if (s.op == "t_add")
    {
        auto row = gen_row(s.vseed, s.size, ++T.rowuniq, hostile);
        // one add in ten collides with an existing row on a UNIQUE key (path, or origin uuid + origin id): it must be
        // refused and change nothing - in particular it must not displace the earlier row
        bool collide = !atomic && !T.rows.empty() && (arg(2) % 10) == 0;
        if (collide)
        {
            auto& victim = T.rows[pick(T.rows, arg(3))];
            if (arg(2) % 20 == 0)
                row.path = victim.path;
            else
            {
                row.origin_database_uuid = victim.origin_database_uuid;
                row.origin_track_id = victim.origin_track_id;
            }
            probes.hit("t_add_colliding");
        }
        int64_t id = 0;
        Outcome o = call(s.fault, [&] { id = tt.add(row); });
        note("t_add -> " + (o.threw ? "threw " + o.exc + ": " + o.what : "id " + std::to_string(id)));
        if (o.threw && !collide && !hostile && !atomic && !o.fault_fired)
            // every generated value of the non-hostile profiles is inside the encodable domain (labels <= 255 bytes, ...)
            report("C03", "C03|t_add|" + F + "|encodable-refused", "add() of a row inside the encodable domain threw " + o.exc + ": " + o.what);
        if (!o.threw && collide)
            report("C18", "C18|t_add|" + F + "|unique-collision-accepted",
                   "add() of a row whose path or origin key equals that of an existing row returned normally");
        if (!o.threw)
        {
            if (T.rows.count(id))
                report("C18", "C18|t_add|" + F + "|id-collision", "add() returned the id of an existing row");
            T.rows[id] = expect_row(row, id, T.range, T.uuid);
            probes.hit("t_add_ok");
        }
        else
            probes.hit("t_add_rejected");
        finish("t_add", o, id);
        return true;
    }
    if (s.op == "t_update")
    {
        int64_t id = pick(T.rows, arg(0));
        if (!id)
            return true;
        auto row = gen_row(s.vseed, s.size, ++T.rowuniq, hostile);
        row.id = id;
        Outcome o = call(s.fault, [&] { tt.update(row); });
        note("t_update " + std::to_string(id) + (o.threw ? " -> threw " + o.exc + ": " + o.what : " -> ok"));
        if (o.threw && !hostile && !atomic && !o.fault_fired)
            report("C03", "C03|t_update|" + F + "|encodable-refused", "update() with a row inside the encodable domain threw " + o.exc + ": " + o.what);
        if (!o.threw)
        {
            auto e = expect_row(row, id, T.range, T.uuid);
            T.rows[id] = e;
            probes.hit("t_update_ok");
        }
        finish("t_update", o, id);
        return true;
    }
    if (s.op == "t_rewrite")
    {
        // get() then update() of the unchanged row
        int64_t id = pick(T.rows, arg(0));
        if (!id)
            return true;
        Outcome o = call(s.fault, [&] {
            auto row = tt.get(id);
            tt.update(*row);
        });
        note("t_rewrite " + std::to_string(id) + (o.threw ? " -> threw " + o.exc : " -> ok"));
        if (o.threw && !o.fault_fired)
            report("C18", "C18|t_rewrite|" + F + "|threw", "writing back a row just read threw " + o.exc + ": " + o.what);
        finish("t_rewrite", o, id);
        return true;
    }
    if (s.op == "t_remove")
    {
        int64_t id = pick(T.rows, arg(0));
        if (!id)
            return true;
        Outcome o = call(s.fault, [&] { tt.remove(id); });
        note("t_remove " + std::to_string(id) + (o.threw ? " -> threw " + o.exc : " -> ok"));
        if (!o.threw)
        {
            T.rows.erase(id);
            for (auto& kv : T.ents)
            {
                // entries naming this id in another database are not this track's
                kv.second.erase(std::remove(kv.second.begin(), kv.second.end(), id), kv.second.end());
                T.entrow.erase({kv.first, id});
            }
        }
        finish("t_remove", o, 0);
        return true;
    }
    if (s.op == "t_setcol")
    {
        int64_t id = pick(T.rows, arg(0));
        if (!id)
            return true;
        auto& cols = columns();
        const Col& c = cols[(size_t)((uint64_t)arg(1) % cols.size())];
        if (c.min_range > T.range)
            return true;
        auto donor = gen_row(s.vseed, s.size, ++T.rowuniq, hostile);
        if (std::string(c.name) == "path")
            donor.path = "tbl/set" + std::to_string(T.rowuniq) + ".wav";
        Outcome o = call(s.fault, [&] { c.set(tt, id, donor); });
        note("t_setcol " + std::string(c.name) + " on " + std::to_string(id) + (o.threw ? " -> threw " + o.exc + ": " + o.what : " -> ok"));
        op_counts["t_setcol:" + std::string(c.name)]++;
        if (o.threw && c.blob && !hostile && !atomic && !o.fault_fired)
            report("C03", "C03|t_setcol_" + std::string(c.name) + "|" + F + "|encodable-refused",
                   "the blob setter refused a value inside the encodable domain: " + o.exc + ": " + o.what);
        if (!o.threw)
        {
            c.copy(T.rows[id], donor);
            // origin fix-up also fires on update
            auto& e = T.rows[id];
            if (e.origin_track_id == 0 || e.origin_database_uuid.empty())
            {
                e.origin_track_id = id;
                e.origin_database_uuid = T.uuid;
            }
            probes.hit("t_setcol_ok");
        }
        finish("t_setcol_" + std::string(c.name), o, id);
        return true;
    }
    if (s.op == "t_missing")
    {
        // accessors and remove() naming a nonexistent row must report an error
        int64_t id = 900000 + (int64_t)r.below(1000);
        auto& cols = columns();
        const Col& c = cols[(size_t)((uint64_t)arg(1) % cols.size())];
        if (c.min_range <= T.range)
        {
            Outcome g = call(FaultSpec{}, [&] { c.get(tt, id); });
            if (!g.threw)
                report("C18", "C18|get_" + std::string(c.name) + "|" + F + "|missing-row-silent", "getter on a nonexistent row returned normally");
            auto donor = gen_row(s.vseed, 1, ++T.rowuniq, false);
            Outcome st = call(FaultSpec{}, [&] { c.set(tt, id, donor); });
            if (!st.threw)
                report("C18", "C18|set_" + std::string(c.name) + "|" + F + "|missing-row-silent", "setter on a nonexistent row returned normally");
        }
        // the nonexistent id may well be *referenced*: a playlist entry naming a track id that has no row (the table API
        // accepts it, Engine leaves such entries behind).  remove() must still report the missing row and touch nothing.
        int64_t ref_list = 0;
        if ((arg(2) & 1) && plan.cfg.profile.compare(0, 5, "table") == 0 && !atomic)
        {
            ref_list = pick(T.lists, arg(0));
            if (ref_list)
            {
                v2::playlist_entity_row er{v2::PLAYLIST_ENTITY_ROW_ID_NONE, ref_list, id, T.uuid, 0, 0};
                int64_t eid = 0;
                Outcome ao = call(FaultSpec{}, [&] { eid = et.add_back(er); });
                auto& mem = T.ents[ref_list];
                if (!ao.threw && std::find(mem.begin(), mem.end(), id) == mem.end())
                {
                    mem.push_back(id);
                    T.entrow[{ref_list, id}] = {eid, 0};
                    probes.hit("t_missing_referenced_id");
                }
                else
                    ref_list = 0;
            }
        }
        Outcome rm = call(FaultSpec{}, [&] { tt.remove(id); });
        if (!rm.threw)
            report("C18", "C18|remove|" + F + "|missing-row-silent", "remove() of a nonexistent row returned normally");
        if (ref_list)
        {
            table_check("t_missing", 0);  // the entry that names the id is still there, nothing else moved
            Outcome ro = call(FaultSpec{}, [&] { et.remove(ref_list, id); });
            if (!ro.threw)
            {
                auto& mem = T.ents[ref_list];
                mem.erase(std::remove(mem.begin(), mem.end(), id), mem.end());
                mem.erase(std::remove(mem.begin(), mem.end(), -id), mem.end());
                T.entrow.erase({ref_list, id});
                T.entrow.erase({ref_list, -id});
            }
        }
        auto row = gen_row(s.vseed, 1, ++T.rowuniq, false);
        row.id = id;
        Outcome up = call(FaultSpec{}, [&] { tt.update(row); });
        (void)up;
        std::optional<v2::track_row> got;
        Outcome g2 = call(FaultSpec{}, [&] { got = tt.get(id); });
        if (!g2.threw && got)
            report("C18", "C18|get|" + F + "|missing-row-found", "get() of a nonexistent row returned a row");
        probes.hit("t_missing_checked");
        table_check("t_missing", 0);
        return true;
    }
    // ---- playlists
    if (s.op == "p_add")
    {
        int64_t parent = (arg(0) % 3 == 0 || T.lists.empty()) ? 0 : pick(T.lists, arg(0));
        auto& sibs = T.order[parent];
        int64_t next = 0;
        if (!sibs.empty() && (arg(1) & 1))
            next = sibs[(size_t)((uint64_t)arg(2) % sibs.size())];
        v2::playlist_row row{v2::PLAYLIST_ROW_ID_NONE, "pl" + std::to_string(++T.rowuniq), parent, !r.chance(1, 3), next, gen_tp(r, 5), !r.chance(1, 3)};
        // one add in eight re-uses the title of a list under the same parent: (title, parent) is UNIQUE, so the call must
        // be refused as a whole - in particular none of its re-link statements may stay behind
        bool collide = false;
        if (!atomic && !sibs.empty() && (arg(3) % 8) == 0)
        {
            row.title = T.lists[sibs[(size_t)((uint64_t)arg(3) / 8 % sibs.size())]].title;
            collide = true;
            probes.hit("p_add_colliding");
        }
        int64_t id = 0;
        Outcome o = call(s.fault, [&] { id = pt.add(row); });
        note("p_add under " + std::to_string(parent) + " before " + std::to_string(next) + (collide ? " (title taken)" : "") +
             (o.threw ? " -> threw " + o.exc : " -> id " + std::to_string(id)));
        if (!o.threw && collide)
            report("C18", "C18|p_add|" + F + "|unique-collision-accepted", "add() of a list whose (title, parent) already exists returned normally");
        if (!o.threw)
        {
            T.lists[id] = {row.title, parent, row.is_persisted, row.is_explicitly_exported, row.last_edit_time};
            // database-maintained: a persisted list makes all its ancestors persisted (Engine's own trigger)
            if (row.is_persisted)
                for (int64_t a = parent; a && T.lists.count(a); a = T.lists[a].parent)
                    T.lists[a].persisted = true;
            if (next)
                sibs.insert(std::find(sibs.begin(), sibs.end(), next), id);
            else
                sibs.push_back(id);
            probes.hit(next ? "p_add_positioned" : "p_add_tail");
        }
        finish("p_add", o, 0);
        return true;
    }
    if (s.op == "p_update")
    {
        int64_t id = pick(T.lists, arg(0));
        if (!id)
            return true;
        std::optional<v2::playlist_row> row;
        Outcome g = call(FaultSpec{}, [&] { row = pt.get(id); });
        if (g.threw || !row)
            return true;
        bool move = (arg(1) % 3) != 0;
        int64_t new_parent = row->parent_list_id, new_next = row->next_list_id;
        if (move)
        {
            new_parent = (arg(2) % 3 == 0) ? 0 : pick(T.lists, arg(2));
            // not under itself or its own descendants
            for (int64_t p = new_parent; p; p = T.lists.count(p) ? T.lists[p].parent : 0)
                if (p == id)
                    new_parent = 0;
            auto sibs = T.order[new_parent];
            sibs.erase(std::remove(sibs.begin(), sibs.end(), id), sibs.end());
            new_next = (sibs.empty() || (arg(3) & 1)) ? 0 : sibs[(size_t)((uint64_t)arg(3) / 2 % sibs.size())];
        }
        else
            row->title = "ren" + std::to_string(++T.rowuniq);
        // any subset of the other columns changes in the same call (also together with a move)
        if (arg(1) & 8)
            row->title = "mv" + std::to_string(++T.rowuniq);
        if (arg(1) & 16)
            row->is_persisted = !row->is_persisted;
        if (arg(1) & 32)
            row->is_explicitly_exported = !row->is_explicitly_exported;
        if (arg(1) & 64)
            row->last_edit_time = gen_tp(r, 6);
        // one update in eight takes the title of another list under the (new) parent: refused by UNIQUE(title, parent),
        // typically in the LAST statement of a move
        bool collide = false;
        if (!atomic && ((arg(1) >> 7) % 3) == 0)
        {
            for (auto sib : T.order[new_parent])
                if (sib != id)
                {
                    row->title = T.lists[sib].title;
                    collide = true;
                    probes.hit("p_update_colliding");
                    break;
                }
        }
        row->parent_list_id = new_parent;
        row->next_list_id = new_next;
        Outcome o = call(s.fault, [&] { pt.update(*row); });
        if (!o.threw && collide)
            report("C18", "C18|p_update|" + F + "|unique-collision-accepted", "update() to a (title, parent) that already exists returned normally");
        note("p_update " + std::to_string(id) + " -> parent " + std::to_string(new_parent) + " before " + std::to_string(new_next) +
             (o.threw ? " -> threw " + o.exc + ": " + o.what : " -> ok"));
        if (!o.threw)
        {
            auto& m = T.lists[id];
            auto& old = T.order[m.parent];
            old.erase(std::remove(old.begin(), old.end(), id), old.end());
            bool was_persisted = m.persisted;
            bool moved = m.parent != new_parent;
            m.parent = new_parent;
            m.title = row->title;
            m.persisted = row->is_persisted;
            // database-maintained propagation of isPersisted (Engine's own triggers)
            if ((!was_persisted && m.persisted) || (moved && m.persisted))
                for (int64_t a = new_parent; a && T.lists.count(a); a = T.lists[a].parent)
                    T.lists[a].persisted = true;
            if (was_persisted && !m.persisted)
            {
                std::vector<int64_t> st{id};
                while (!st.empty())
                {
                    int64_t c = st.back();
                    st.pop_back();
                    for (auto& kv2 : T.lists)
                        if (kv2.second.parent == c && kv2.first != id)
                        {
                            kv2.second.persisted = false;
                            st.push_back(kv2.first);
                        }
                }
            }
            m.exported = row->is_explicitly_exported;
            m.edited = row->last_edit_time;
            auto& sibs = T.order[new_parent];
            if (new_next)
                sibs.insert(std::find(sibs.begin(), sibs.end(), new_next), id);
            else
                sibs.push_back(id);
            probes.hit(move ? "p_move_ok" : "p_rename_ok");
        }
        finish("p_update", o, 0);
        return true;
    }
    if (s.op == "p_remove")
    {
        int64_t id = pick(T.lists, arg(0));
        if (!id)
            return true;
        Outcome o = call(s.fault, [&] { pt.remove(id); });
        note("p_remove " + std::to_string(id) + (o.threw ? " -> threw " + o.exc : " -> ok"));
        if (!o.threw)
        {
            std::vector<int64_t> gone{id};
            for (size_t i = 0; i < gone.size(); ++i)
                for (auto& kv : T.lists)
                    if (kv.second.parent == gone[i])
                        gone.push_back(kv.first);
            for (auto g : gone)
            {
                auto& old = T.order[T.lists[g].parent];
                old.erase(std::remove(old.begin(), old.end(), g), old.end());
            }
            for (auto g : gone)
            {
                for (auto t : T.ents[g])
                    T.entrow.erase({g, t});
                T.lists.erase(g);
                T.order.erase(g);
                T.ents.erase(g);
            }
            probes.hit("p_remove_ok");
        }
        finish("p_remove", o, 0);
        return true;
    }
    if (s.op == "i_played")
    {
        // the Information row: one writable column through the table API
        static const int64_t edge[] = {0, 1, -1, INT64_MAX, INT64_MIN, 4294967296ll, 1234567890123ll};
        int64_t x = (arg(0) & 1) ? edge[(uint64_t)arg(1) % 7] : (int64_t)r.next();
        Outcome o = call(s.fault, [&] { T.lib->information().update_current_played_indicator(x); });
        note("i_played " + std::to_string(x) + (o.threw ? " -> threw " + o.exc : " -> ok"));
        if (!o.threw && T.info)
            T.info->current_played_indicator = x;
        probes.hit("information_written");
        finish("i_played", o, 0);
        return true;
    }
    if (s.op == "e_add" || s.op == "e_remove" || s.op == "e_clear")
    {
        int64_t l = pick(T.lists, arg(0));
        if (!l)
            return true;
        auto& mem = T.ents[l];
        if (s.op == "e_clear")
        {
            Outcome o = call(s.fault, [&] { et.clear(l); });
            if (!o.threw)
            {
                for (auto t : mem)
                    T.entrow.erase({l, t});
                mem.clear();
            }
            note("e_clear " + std::to_string(l));
            finish("e_clear", o, 0);
            return true;
        }
        int64_t t = pick(T.rows, arg(1));
        if (!t)
            return true;
        Outcome o;
        if (s.op == "e_add")
        {
            int64_t mref = (arg(2) % 3 == 0) ? 0 : 70000 + (int64_t)r.below(1000);
            // entries are keyed by (list, database uuid, track): one in eight names the same track id in ANOTHER database
            // (model key: the negated track id)
            const bool foreign = !atomic && plan.cfg.profile.compare(0, 5, "cross") != 0 && (arg(2) & 8) && (arg(3) & 1);
            if (foreign && !mem.empty() && (arg(3) & 2))
            {
                // prefer a track id the list already holds for the other database: same (list, track), different uuid
                int64_t k = mem[(size_t)((uint64_t)arg(1) % mem.size())];
                t = k < 0 ? -k : k;
            }
            const int64_t key = foreign ? -t : t;
            v2::playlist_entity_row row{v2::PLAYLIST_ENTITY_ROW_ID_NONE, l, t, foreign ? kOtherDbUuid : T.uuid, (arg(2) & 4) ? 12345 : 0, mref};
            int64_t eid = 0;
            o = call(s.fault, [&] { eid = et.add_back(row); });
            note("e_add list " + std::to_string(l) + " track " + std::to_string(t) + (foreign ? " (other database)" : "") +
                 (o.threw ? " -> threw " + o.exc : " -> ok"));
            if (foreign)
                probes.hit("e_add_other_database");
            if (!o.threw && std::find(mem.begin(), mem.end(), key) == mem.end())
            {
                mem.push_back(key);
                T.entrow[{l, key}] = {eid, mref};
            }
            else if (!o.threw && !atomic)
            {
                // already present: the existing entity's id is returned and nothing changes
                auto it = T.entrow.find({l, key});
                if (it != T.entrow.end() && it->second.id != eid)
                    report("C18", "C18|e_add|" + F + "|duplicate-id", "add_back of an existing entry returned another id");
            }
            probes.hit("e_add_ok");
        }
        else
        {
            o = call(s.fault, [&] { et.remove(l, t); });
            note("e_remove list " + std::to_string(l) + " track " + std::to_string(t) + (o.threw ? " -> threw " + o.exc : " -> ok"));
            if (!o.threw)
            {
                // remove(list, track) names the track id only: entries of every database go
                mem.erase(std::remove(mem.begin(), mem.end(), t), mem.end());
                mem.erase(std::remove(mem.begin(), mem.end(), -t), mem.end());
                T.entrow.erase({l, t});
                T.entrow.erase({l, -t});
            }
        }
        finish(s.op, o, 0);
        return true;
    }
    return false;
}

void World::open_table_library()
{
    tstate.reset(new TState());
    auto& T = *tstate;
    Outcome o = call(FaultSpec{}, [&] {
        T.lib = plan.cfg.on_disk ? v2::engine_library::create(api_dir(), schema) : v2::engine_library::create_temporary(schema);
        db = T.lib->database();
    });
    if (o.threw)
    {
        stop = true;
        stop_reason = "engine_library::create threw " + o.exc + ": " + o.what;
        return;
    }
    T.range = schema >= eng::engine_schema::schema_2_20_3 ? 2 : (schema >= eng::engine_schema::schema_2_20_1 ? 1 : 0);
    T.info = T.lib->information().get();
    T.uuid = T.info->uuid;
}

void World::close_table_library()
{
    if (tstate)
        tstate->lib.reset();
}

bool World::reload_table_library()
{
    auto& T = *tstate;
    Outcome o = call(FaultSpec{}, [&] {
        T.lib = v2::engine_library::load(api_dir());
        db = T.lib->database();
    });
    if (o.threw)
        report("C10", "C10|engine_library.load|v2|threw", o.exc + ": " + o.what);
    return !o.threw;
}

}  // namespace djsim
