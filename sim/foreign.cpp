// Actor F: the foreign writer ("Engine DJ").  Own SQLite connection on the
// simulated disk, blobs encoded with the independent codec (refcodec) in shapes
// the library itself never produces.  Decides
//   C02 (converse): what the independent encoder stores, the library reads back;
//   C04: read-modify-write through the library preserves every other byte;
//   C05: stored bytes damaged at an arbitrary instant never make a reader crash,
//        hang or throw something that is not a std::exception.
#include <algorithm>
#include <climits>
#include <cstring>

#include "rawdb.hpp"
#include "refcodec.hpp"
#include "tstate.hpp"
#include "world.hpp"

namespace djsim
{
namespace
{
using ref::Bytes;

// ------------------------------------------------------------------ payloads
struct Payloads
{
    // inflated payloads (loops are stored uncompressed); 1.x also has a
    // high-resolution waveform
    Bytes td, ov, bd, qc, lp, hr;
    // raw cells as stored
    Bytes rtd, rov, rbd, rqc, rlp, rhr;
    bool found = false;
    std::string err;  // first unwrap problem, if any
};

const char* kBlobCols2[] = {"trackData", "overviewWaveFormData", "beatData", "quickCues", "loops"};
const char* kBlobCols1[] = {"trackData", "overviewWaveFormData", "beatData", "quickCues", "loops", "highResolutionWaveFormData"};

std::string db_path(const World& w, bool perf)
{
    if (w.v2)
        return w.dir + "/Database2/m.db";
    return w.dir + (perf ? "/p.db" : "/m.db");
}

Payloads read_payloads(const World& w, int64_t id)
{
    Payloads p;
    HDb d;
    if (!d.open(db_path(w, true), true))
    {
        p.err = "open: " + d.err;
        return p;
    }
    std::string sql = w.v2 ? "SELECT trackData, overviewWaveFormData, beatData, quickCues, loops FROM Track WHERE id = ?"
                           : "SELECT trackData, overviewWaveFormData, beatData, quickCues, loops, highResolutionWaveFormData "
                             "FROM PerformanceData WHERE id = ?";
    d.run(sql, {HDb::Bind::Int(id)}, [&](sqlite3_stmt* st) {
        p.found = true;
        p.rtd = HDb::blob(st, 0);
        p.rov = HDb::blob(st, 1);
        p.rbd = HDb::blob(st, 2);
        p.rqc = HDb::blob(st, 3);
        p.rlp = HDb::blob(st, 4);
        if (!w.v2)
            p.rhr = HDb::blob(st, 5);
    });
    std::string e;
    auto un = [&](const Bytes& raw, Bytes& out, const char* what) {
        if (!ref::zunwrap(raw, out, e) && p.err.empty())
            p.err = std::string(what) + ": " + e;
    };
    un(p.rtd, p.td, "trackData");
    un(p.rov, p.ov, "overviewWaveFormData");
    un(p.rbd, p.bd, "beatData");
    un(p.rqc, p.qc, "quickCues");
    p.lp = p.rlp;
    if (!w.v2)
        un(p.rhr, p.hr, "highResolutionWaveFormData");
    return p;
}

bool write_cell(const World& w, int64_t id, const std::string& col, const Bytes& cell, std::string& err)
{
    HDb d;
    if (!d.open(db_path(w, true), false))
    {
        err = d.err;
        return false;
    }
    std::string table = w.v2 ? "Track" : "PerformanceData";
    bool ok = d.run("UPDATE " + table + " SET " + col + " = ? WHERE id = ?", {HDb::Bind::Blob(cell), HDb::Bind::Int(id)});
    if (!ok)
        err = d.err;
    return ok;
}

// ------------------------------------------------------------------ foreign values
Bytes gen_tail(Rng& r, int size)
{
    Bytes v;
    size_t n;
    switch (r.below(6))
    {
        case 0: n = 0; break;
        case 1: n = 9; break;
        case 2: n = 1; break;
        case 3: n = 1 + r.below(8); break;
        default: n = size >= 2 ? r.below(65) : r.below(12); break;
    }
    bool zeros = r.chance(1, 3);
    for (size_t i = 0; i < n; ++i)
        v.push_back(zeros ? 0 : (uint8_t)r.below(256));
    return v;
}

double any_double(Rng& r, bool allow_nan)
{
    GenFlags f;
    f.nonfinite = allow_nan;
    if (allow_nan && r.chance(1, 16))
        return bits_to_double(0x7FF8000000000000ull | (r.next() & 0xFFFFFFFFFFFFull));  // NaN with payload
    return gen_double(r, f);
}

std::string any_label(Rng& r)
{
    switch (r.below(8))
    {
        case 0: return "";
        case 1: return gen_bytes(r, 255, false);
        case 2: return gen_bytes(r, 1 + r.below(40), false);
        case 3: return gen_utf8(r, 1 + r.below(5));
        default: return "Cue " + std::to_string(r.below(90));
    }
}

const uint8_t kFlags[] = {0, 1, 1, 2, 255, 128};

struct Foreign
{
    ref::TrackData2 td;
    ref::Overview ov;
    ref::BeatData bd;
    ref::QuickCues qc;
    ref::Loops lp;
};

std::vector<ref::Marker> gen_grid(Rng& r, size_t n, bool nan)
{
    std::vector<ref::Marker> g;
    int64_t beat = r.range(-8, 8);
    double off = (double)r.range(-1000, 1000);
    for (size_t i = 0; i < n; ++i)
    {
        ref::Marker m;
        m.offset = r.chance(1, 10) ? any_double(r, nan) : off;
        m.beat = r.chance(1, 12) ? (int64_t)r.next() : beat;
        m.beats_to_next = (int32_t)(r.chance(1, 4) ? r.next() : r.range(0, 64));
        m.unknown = r.chance(1, 2) ? (int32_t)r.next() : 0;
        g.push_back(m);
        beat += r.range(1, 64);
        off += (double)r.range(1, 100000);
    }
    return g;
}

Foreign gen_foreign(uint64_t seed, int size)
{
    Rng r(seed ^ 0xF0E16Aull);
    bool nan = r.chance(1, 3);
    Foreign f;
    f.td.sample_rate = any_double(r, nan);
    static const int64_t ss[] = {0, 1, -1, INT64_MAX, INT64_MIN, 44100 * 300, 1ll << 40};
    f.td.samples = ss[r.below(7)];
    static const int32_t ks[] = {0, 1, 23, 24, -1, INT32_MAX, INT32_MIN, 7};
    f.td.key = ks[r.below(8)];
    f.td.loud_low = any_double(r, nan);
    f.td.loud_mid = any_double(r, nan);
    f.td.loud_high = any_double(r, nan);
    f.td.extra = gen_tail(r, size);

    size_t n;
    switch (r.below(6))
    {
        case 0: n = 0; break;
        case 1: n = 1024; break;
        case 2: n = 1; break;
        case 3: n = size >= 3 ? 6000 + r.below(3000) : 17; break;
        default: n = r.below(60); break;
    }
    f.ov.n1 = f.ov.n2 = (int64_t)n;
    f.ov.samples_per_point = any_double(r, nan);
    for (size_t i = 0; i < n; ++i)
    {
        uint64_t x = r.next();
        f.ov.pts.push_back({(uint8_t)x, (uint8_t)(x >> 8), (uint8_t)(x >> 16)});
    }
    uint64_t x = r.next();
    f.ov.max = {(uint8_t)x, (uint8_t)(x >> 8), (uint8_t)(x >> 16)};  // deliberately not the true maximum
    f.ov.extra = gen_tail(r, size);

    f.bd.sample_rate = any_double(r, nan);
    f.bd.samples = any_double(r, nan);
    f.bd.is_set = kFlags[r.below(6)];
    size_t gn;
    switch (r.below(7))
    {
        case 0: gn = 0; break;
        case 1: gn = 1; break;
        case 2: gn = 2; break;
        case 3: gn = size >= 3 ? 700 + r.below(500) : 6; break;
        default: gn = r.below(12); break;
    }
    f.bd.adj = gen_grid(r, gn, nan);
    f.bd.def = r.chance(1, 3) ? f.bd.adj : gen_grid(r, r.below(7), nan);
    f.bd.extra = gen_tail(r, size);

    size_t cn = r.chance(1, 3) ? 8 : r.below(13);
    for (size_t i = 0; i < cn; ++i)
    {
        ref::Cue c;
        c.label = any_label(r);
        c.offset = r.chance(1, 4) ? -1.0 : any_double(r, nan);
        auto col = gen_color(r);
        c.a = col.a;
        c.r = col.r;
        c.g = col.g;
        c.b = col.b;
        f.qc.cues.push_back(c);
    }
    f.qc.adj_main = any_double(r, nan);
    f.qc.def_main = r.chance(1, 3) ? f.qc.adj_main : any_double(r, nan);
    f.qc.is_adj = kFlags[r.below(6)];
    f.qc.extra = gen_tail(r, size);

    size_t ln = r.chance(1, 3) ? 8 : r.below(13);
    for (size_t i = 0; i < ln; ++i)
    {
        ref::Loop l;
        l.label = any_label(r);
        l.start = r.chance(1, 4) ? -1.0 : any_double(r, nan);
        l.end = r.chance(1, 4) ? -1.0 : any_double(r, nan);
        l.start_set = kFlags[r.below(6)];
        l.end_set = kFlags[r.below(6)];
        auto col = gen_color(r);
        l.a = col.a;
        l.r = col.r;
        l.g = col.g;
        l.b = col.b;
        f.lp.loops.push_back(l);
    }
    f.lp.extra = gen_tail(r, size);
    if (size >= 2 && r.chance(1, 5))
    {
        // uncompressed payloads of exactly k x 16 KiB (or one byte either side): the chunk boundary of the codec loops
        auto pad = [&](Bytes& extra, size_t without) {
            long d = r.chance(1, 2) ? 0 : (long)r.below(3) - 1;
            long target = 16384 * (long)((without + 16383) / 16384 + r.below(2)) + d;
            if (target <= (long)without)
                target += 16384;
            extra.assign((size_t)(target - (long)without), 0);
            for (size_t i = 0; i < extra.size(); i += 5)
                extra[i] = (uint8_t)r.below(256);
        };
        switch (r.below(4))
        {
            case 0: pad(f.td.extra, 44); break;
            case 1: pad(f.ov.extra, 27 + 3 * f.ov.pts.size()); break;
            case 2: pad(f.bd.extra, 33 + 24 * (f.bd.def.size() + f.bd.adj.size())); break;
            default:
            {
                size_t n = 25;
                for (auto& c : f.qc.cues)
                    n += 13 + c.label.size();
                pad(f.qc.extra, n);
                break;
            }
        }
    }
    return f;
}

bool bits_eq(double a, double b) { return double_bits(a) == double_bits(b); }
Bytes to_bytes(const std::vector<std::byte>& v)
{
    Bytes b(v.size());
    if (!v.empty())
        memcpy(b.data(), v.data(), v.size());
    return b;
}

// ------------------------------------------------------------------ field-level diff of two payload sets
// Names of the logical fields that differ between `a` and `b` (decoded with
// refcodec).  The main-cue-adjusted byte is compared as a boolean.
std::vector<std::string> diff_payloads(const Payloads& a, const Payloads& b)
{
    std::vector<std::string> d;
    std::string e;
    // track data
    if (a.td != b.td)
    {
        ref::TrackData2 x, y;
        if (!ref::dec_track2(a.td, x, e))
            d.push_back("trackData.old-undecodable");
        else if (!ref::dec_track2(b.td, y, e))
            d.push_back("trackData.undecodable");
        else
        {
            if (!bits_eq(x.sample_rate, y.sample_rate))
                d.push_back("trackData.sample_rate");
            if (x.samples != y.samples)
                d.push_back("trackData.samples");
            if (x.key != y.key)
                d.push_back("trackData.key");
            if (!bits_eq(x.loud_low, y.loud_low) || !bits_eq(x.loud_mid, y.loud_mid) || !bits_eq(x.loud_high, y.loud_high))
                d.push_back("trackData.loudness");
            if (x.extra != y.extra)
                d.push_back("trackData.extra");
        }
    }
    if (a.ov != b.ov)
    {
        ref::Overview x, y;
        bool ea = a.ov.empty(), eb = b.ov.empty();
        if ((!ea && !ref::dec_overview(a.ov, x, e)))
            d.push_back("overview.old-undecodable");
        else if (!eb && !ref::dec_overview(b.ov, y, e))
            d.push_back("overview.undecodable");
        else
        {
            if (ea != eb || !bits_eq(x.samples_per_point, y.samples_per_point))
                d.push_back("overview.samples_per_point");
            if (x.pts != y.pts)
                d.push_back("overview.points");
            if (x.max != y.max)
                d.push_back("overview.maximum");
            if (x.extra != y.extra)
                d.push_back("overview.extra");
        }
    }
    if (a.bd != b.bd)
    {
        ref::BeatData x, y;
        if (!ref::dec_beat(a.bd, x, e))
            d.push_back("beatData.old-undecodable");
        else if (!ref::dec_beat(b.bd, y, e))
            d.push_back("beatData.undecodable");
        else
        {
            auto geq = [](const std::vector<ref::Marker>& p, const std::vector<ref::Marker>& q) {
                if (p.size() != q.size())
                    return false;
                for (size_t i = 0; i < p.size(); ++i)
                    if (!bits_eq(p[i].offset, q[i].offset) || p[i].beat != q[i].beat ||
                        p[i].beats_to_next != q[i].beats_to_next || p[i].unknown != q[i].unknown)
                        return false;
                return true;
            };
            if (!bits_eq(x.sample_rate, y.sample_rate))
                d.push_back("beatData.sample_rate");
            if (!bits_eq(x.samples, y.samples))
                d.push_back("beatData.samples");
            if (x.is_set != y.is_set)
                d.push_back("beatData.is_set");
            if (!geq(x.def, y.def))
                d.push_back("beatData.default_grid");
            if (!geq(x.adj, y.adj))
                d.push_back("beatData.adjusted_grid");
            if (x.extra != y.extra)
                d.push_back("beatData.extra");
        }
    }
    if (a.qc != b.qc)
    {
        ref::QuickCues x, y;
        if (!ref::dec_cues(a.qc, x, e))
            d.push_back("quickCues.old-undecodable");
        else if (!ref::dec_cues(b.qc, y, e))
            d.push_back("quickCues.undecodable");
        else
        {
            if (x.cues.size() != y.cues.size())
                d.push_back("quickCues.count");
            for (size_t i = 0; i < x.cues.size() && i < y.cues.size(); ++i)
            {
                auto &p = x.cues[i], &q = y.cues[i];
                if (p.label != q.label || !bits_eq(p.offset, q.offset) || p.a != q.a || p.r != q.r || p.g != q.g || p.b != q.b)
                    d.push_back("quickCues.cue[" + std::to_string(i) + "]");
            }
            if (!bits_eq(x.adj_main, y.adj_main))
                d.push_back("quickCues.adjusted_main_cue");
            if (!bits_eq(x.def_main, y.def_main))
                d.push_back("quickCues.default_main_cue");
            if ((x.is_adj != 0) != (y.is_adj != 0))
                d.push_back("quickCues.is_main_cue_adjusted");
            else if (x.is_adj != y.is_adj && y.is_adj != 1)
                d.push_back("quickCues.is_main_cue_adjusted-not-normalised-to-1");
            if (x.extra != y.extra)
                d.push_back("quickCues.extra");
        }
    }
    if (a.lp != b.lp)
    {
        ref::Loops x, y;
        bool ea = a.lp.empty(), eb = b.lp.empty();
        if (!ea && !ref::dec_loops(a.lp, x, e))
            d.push_back("loops.old-undecodable");
        else if (!eb && !ref::dec_loops(b.lp, y, e))
            d.push_back("loops.undecodable");
        else
        {
            if (x.loops.size() != y.loops.size())
                d.push_back("loops.count");
            for (size_t i = 0; i < x.loops.size() && i < y.loops.size(); ++i)
            {
                auto &p = x.loops[i], &q = y.loops[i];
                if (p.label != q.label || !bits_eq(p.start, q.start) || !bits_eq(p.end, q.end) || p.start_set != q.start_set ||
                    p.end_set != q.end_set || p.a != q.a || p.r != q.r || p.g != q.g || p.b != q.b)
                    d.push_back("loops.loop[" + std::to_string(i) + "]");
            }
            if (x.extra != y.extra)
                d.push_back("loops.extra");
        }
    }
    return d;
}

// fields of the performance data a single-field setter owns
std::vector<std::string> owned_by(int field, int slot)
{
    switch (field)
    {
        case F_AVERAGE_LOUDNESS: return {"trackData.loudness"};
        case F_BEATGRID: return {"beatData.default_grid", "beatData.adjusted_grid", "beatData.is_set"};
        case F_HOT_CUES: return {"quickCues.cue[", "quickCues.count"};
        case F_HOT_CUE_AT: return {"quickCues.cue[" + std::to_string(slot) + "]"};
        case F_KEY: return {"trackData.key"};
        case F_LOOPS: return {"loops."};  // the loops blob is one field at the API level
        case F_LOOP_AT: return {"loops.loop[" + std::to_string(slot) + "]"};
        case F_MAIN_CUE: return {"quickCues.adjusted_main_cue", "quickCues.default_main_cue", "quickCues.is_main_cue_adjusted"};
        case F_SAMPLE_COUNT: return {"trackData.samples", "beatData.samples"};
        case F_SAMPLE_RATE: return {"trackData.sample_rate", "beatData.sample_rate"};
        case F_WAVEFORM: return {"overview."};  // likewise the overview waveform
        default: return {};
    }
}

bool allowed(const std::string& f, const std::vector<std::string>& own)
{
    for (auto& o : own)
        if (f.compare(0, o.size(), o) == 0)
            return true;
    return false;
}
}  // namespace

// ------------------------------------------------------------------ the actor
struct ForeignState
{
    std::map<int64_t, Foreign> written;  // track id -> logical content F stored (cleared when L/T writes the track)
};
static std::map<const World*, ForeignState> g_fstate;

static void check_converse_v2(World& w, int64_t id, const Foreign& f)
{
    auto& T = *w.tstate;
    auto tt = T.lib->track();
    std::optional<v2::track_row> row;
    Outcome o = w.call(FaultSpec{}, [&] { row = tt.get(id); });
    auto bad = [&](const std::string& kind, const std::string& field, const std::string& why) {
        w.report("C02", "C02|foreign|v2|" + kind + ":" + field,
                 "blob written by the independent encoder for track " + std::to_string(id) + ": the library decodes " + kind + "." + field +
                     " differently" + (why.empty() ? "" : ": " + why));
    };
    if (o.threw || !row)
    {
        w.report("C02", "C02|foreign|v2|rejected",
                 "the library cannot read a row whose blobs the independent encoder produced: " + o.exc + ": " + o.what);
        return;
    }
    w.probes.hit("foreign_read_back");
    // track data
    auto& td = row->track_data;
    if (!bits_eq(td.sample_rate, f.td.sample_rate))
        bad("trackData", "sample_rate", "");
    if (td.samples != f.td.samples)
        bad("trackData", "samples", "");
    if (td.key != f.td.key)
        bad("trackData", "key", "");
    if (!bits_eq(td.average_loudness_low, f.td.loud_low) || !bits_eq(td.average_loudness_mid, f.td.loud_mid) ||
        !bits_eq(td.average_loudness_high, f.td.loud_high))
        bad("trackData", "loudness", "");
    if (to_bytes(td.extra_data) != f.td.extra)
        bad("trackData", "extra", "");
    // overview
    auto& ov = row->overview_waveform_data;
    if (!bits_eq(ov.samples_per_waveform_point, f.ov.samples_per_point))
        bad("overview", "samples_per_point", "");
    if (ov.waveform_points.size() != f.ov.pts.size())
        bad("overview", "count", "");
    else
        for (size_t i = 0; i < f.ov.pts.size(); ++i)
            if (ov.waveform_points[i].low_value != f.ov.pts[i][0] || ov.waveform_points[i].mid_value != f.ov.pts[i][1] ||
                ov.waveform_points[i].high_value != f.ov.pts[i][2])
            {
                bad("overview", "points", "entry " + std::to_string(i));
                break;
            }
    if (ov.maximum_point.low_value != f.ov.max[0] || ov.maximum_point.mid_value != f.ov.max[1] || ov.maximum_point.high_value != f.ov.max[2])
        bad("overview", "maximum", "");
    if (to_bytes(ov.extra_data) != f.ov.extra)
        bad("overview", "extra", "");
    // beat data
    auto& bd = row->beat_data;
    if (!bits_eq(bd.sample_rate, f.bd.sample_rate))
        bad("beatData", "sample_rate", "");
    if (!bits_eq(bd.samples, f.bd.samples))
        bad("beatData", "samples", "");
    if (bd.is_beatgrid_set != f.bd.is_set)
        bad("beatData", "is_set", "");
    auto grid = [&](const std::vector<v2::beat_grid_marker_blob>& g, const std::vector<ref::Marker>& e, const char* name) {
        if (g.size() != e.size())
        {
            bad("beatData", std::string(name) + "-count", "");
            return;
        }
        for (size_t i = 0; i < g.size(); ++i)
            if (!bits_eq(g[i].sample_offset, e[i].offset) || g[i].beat_number != e[i].beat || g[i].number_of_beats != e[i].beats_to_next ||
                g[i].unknown_value_1 != e[i].unknown)
            {
                bad("beatData", name, "marker " + std::to_string(i));
                return;
            }
    };
    grid(bd.default_beat_grid, f.bd.def, "default_grid");
    grid(bd.adjusted_beat_grid, f.bd.adj, "adjusted_grid");
    if (to_bytes(bd.extra_data) != f.bd.extra)
        bad("beatData", "extra", "");
    // quick cues
    auto& qc = row->quick_cues;
    if (qc.quick_cues.size() != f.qc.cues.size())
        bad("quickCues", "count", std::to_string(qc.quick_cues.size()) + " vs " + std::to_string(f.qc.cues.size()));
    else
        for (size_t i = 0; i < f.qc.cues.size(); ++i)
        {
            auto& c = qc.quick_cues[i];
            auto& e = f.qc.cues[i];
            if (c.label != e.label)
                bad("quickCues", "label", "cue " + std::to_string(i));
            if (!bits_eq(c.sample_offset, e.offset))
                bad("quickCues", "offset", "cue " + std::to_string(i));
            if (c.color.a != e.a || c.color.r != e.r || c.color.g != e.g || c.color.b != e.b)
                bad("quickCues", "colour", "cue " + std::to_string(i));
        }
    if (!bits_eq(qc.adjusted_main_cue, f.qc.adj_main))
        bad("quickCues", "adjusted_main_cue", "");
    if (!bits_eq(qc.default_main_cue, f.qc.def_main))
        bad("quickCues", "default_main_cue", "");
    if (qc.is_main_cue_adjusted != (f.qc.is_adj != 0))
        bad("quickCues", "is_main_cue_adjusted", "");
    if (to_bytes(qc.extra_data) != f.qc.extra)
        bad("quickCues", "extra", "");
    // loops
    auto& lp = row->loops;
    if (lp.loops.size() != f.lp.loops.size())
        bad("loops", "count", "");
    else
        for (size_t i = 0; i < f.lp.loops.size(); ++i)
        {
            auto& c = lp.loops[i];
            auto& e = f.lp.loops[i];
            if (c.label != e.label)
                bad("loops", "label", "loop " + std::to_string(i));
            if (!bits_eq(c.start_sample_offset, e.start) || !bits_eq(c.end_sample_offset, e.end))
                bad("loops", "offsets", "loop " + std::to_string(i));
            if (c.is_start_set != e.start_set || c.is_end_set != e.end_set)
                bad("loops", "flags", "loop " + std::to_string(i));
            if (c.color.a != e.a || c.color.r != e.r || c.color.g != e.g || c.color.b != e.b)
                bad("loops", "colour", "loop " + std::to_string(i));
        }
    if (to_bytes(lp.extra_data) != f.lp.extra)
        bad("loops", "extra", "");

    // ---- the public track API on the same row
    int ti = -1;
    for (size_t i = 0; i < w.tracks.size(); ++i)
        if (w.tracks[i].live && w.tracks[i].id == id && w.tracks[i].h)
            ti = (int)i;
    if (ti < 0)
        return;
    auto& t = *w.tracks[ti].h;
    auto badl = [&](const std::string& field, const std::string& why) {
        w.report("C02", "C02|foreign|v2|track." + field,
                 "track " + std::to_string(id) + " holding blobs from the independent encoder: " + field + "() " + why);
    };
    Outcome lo = w.call(FaultSpec{}, [&] {
        auto sr = t.sample_rate();
        if (sr.has_value() != (f.td.sample_rate != 0) || (sr && !bits_eq(*sr, f.td.sample_rate)))
            badl("sample_rate", "differs from the stored value");
        auto sc = t.sample_count();
        if (sc.has_value() != (f.td.samples != 0) || (sc && *sc != (unsigned long long)f.td.samples))
            badl("sample_count", "differs from the stored value");
        auto al = t.average_loudness();
        if (al.has_value() != (f.td.loud_low != 0) || (al && !bits_eq(*al, f.td.loud_low)))
            badl("average_loudness", "differs from the stored value");
        auto mc = t.main_cue();
        if (mc.has_value() != (f.qc.adj_main != 0) || (mc && !bits_eq(*mc, f.qc.adj_main)))
            badl("main_cue", "differs from the stored adjusted main cue");
        auto hc = t.hot_cues();
        if (hc.size() != f.qc.cues.size())
            badl("hot_cues", "returns " + std::to_string(hc.size()) + " slots for " + std::to_string(f.qc.cues.size()) + " stored");
        else
            for (size_t i = 0; i < hc.size(); ++i)
            {
                auto& e = f.qc.cues[i];
                bool empty = e.offset == -1;
                if (hc[i].has_value() == empty)
                    badl("hot_cues", "slot " + std::to_string(i) + " presence differs");
                else if (hc[i] && (hc[i]->label != e.label || !bits_eq(hc[i]->sample_offset, e.offset) || hc[i]->color.a != e.a ||
                                   hc[i]->color.r != e.r || hc[i]->color.g != e.g || hc[i]->color.b != e.b))
                    badl("hot_cues", "slot " + std::to_string(i) + " content differs");
            }
        auto ls = t.loops();
        if (ls.size() != f.lp.loops.size())
            badl("loops", "returns " + std::to_string(ls.size()) + " slots for " + std::to_string(f.lp.loops.size()) + " stored");
        else
            for (size_t i = 0; i < ls.size(); ++i)
            {
                auto& e = f.lp.loops[i];
                bool present = e.start_set || e.end_set;
                if (ls[i].has_value() != present)
                    badl("loops", "slot " + std::to_string(i) + " presence differs");
                else if (ls[i] && (ls[i]->label != e.label || !bits_eq(ls[i]->start_sample_offset, e.start) ||
                                   !bits_eq(ls[i]->end_sample_offset, e.end) || ls[i]->color.a != e.a || ls[i]->color.r != e.r ||
                                   ls[i]->color.g != e.g || ls[i]->color.b != e.b))
                    badl("loops", "slot " + std::to_string(i) + " content differs");
            }
        auto bg = t.beatgrid();
        bool fits = true;
        for (auto& m : f.bd.adj)
            if (m.beat < INT32_MIN || m.beat > INT32_MAX)
                fits = false;  // the public marker index is an int: wider stored values are outside its domain
        if (!fits)
            ;
        else if (bg.size() != f.bd.adj.size())
            badl("beatgrid", "returns " + std::to_string(bg.size()) + " markers for " + std::to_string(f.bd.adj.size()) + " stored");
        else
            for (size_t i = 0; i < bg.size(); ++i)
                if ((int64_t)bg[i].index != (int64_t)(int)f.bd.adj[i].beat || !bits_eq(bg[i].sample_offset, f.bd.adj[i].offset))
                {
                    badl("beatgrid", "marker " + std::to_string(i) + " differs");
                    break;
                }
        auto wf = t.waveform();
        if (wf.size() != f.ov.pts.size())
            badl("waveform", "returns " + std::to_string(wf.size()) + " entries for " + std::to_string(f.ov.pts.size()) + " stored");
        else
            for (size_t i = 0; i < wf.size(); ++i)
                if (wf[i].low.value != f.ov.pts[i][0] || wf[i].mid.value != f.ov.pts[i][1] || wf[i].high.value != f.ov.pts[i][2])
                {
                    badl("waveform", "entry " + std::to_string(i) + " differs");
                    break;
                }
    });
    if (lo.threw)
        w.report("C02", "C02|foreign|v2|track-getter-threw", "a track getter threw on blobs from the independent encoder: " + lo.exc + ": " + lo.what);
}

// compare stored payloads before / after a library write that owns `own`
static void check_preserved(World& w, const std::string& op, int64_t id, const Payloads& before, const std::vector<std::string>& own,
                            bool threw)
{
    Payloads after = read_payloads(w, id);
    if (!after.found)
    {
        w.report("C04", "C04|" + op + "|v2|row-lost", "track row " + std::to_string(id) + " disappeared");
        return;
    }
    if (!after.err.empty())
    {
        w.report("C04", "C04|" + op + "|v2|frame-broken", "after " + op + " a stored blob is no longer a well-formed frame: " + after.err);
        return;
    }
    auto d = diff_payloads(before, after);
    for (auto& f : d)
    {
        if (!threw && allowed(f, own))
            continue;
        std::string generic = f;
        auto br = generic.find('[');
        if (br != std::string::npos)
            generic = generic.substr(0, br) + "[i]";
        w.report("C04", "C04|" + op + "|v2|" + (threw ? "rejected-but-changed:" : "altered:") + generic,
                 op + " on track " + std::to_string(id) + " holding foreign-shaped performance data " +
                     (threw ? "threw, yet changed " : "altered ") + f + ", which it does not own");
    }
    w.probes.hit("c04_preservation_checked");
}


// ------------------------------------------------------------------ C05: stored bytes damaged at an arbitrary instant
namespace
{
const int64_t kCounts[] = {-1, 0, 1, /*fit*/ -1000, /*fit+1*/ -1001, 1ll << 31, 1ll << 61, INT64_MAX, INT64_MIN, 2, 255, 256, 65536};

void put_be64(Bytes& b, size_t off, uint64_t v)
{
    for (int i = 0; i < 8; ++i)
        if (off + (size_t)i < b.size())
            b[off + (size_t)i] = (uint8_t)(v >> (8 * (7 - i)));
}
void put_le64(Bytes& b, size_t off, uint64_t v)
{
    for (int i = 0; i < 8; ++i)
        if (off + (size_t)i < b.size())
            b[off + (size_t)i] = (uint8_t)(v >> (8 * i));
}
uint64_t get_be64(const Bytes& b, size_t off)
{
    uint64_t v = 0;
    for (int i = 0; i < 8; ++i)
        v = (v << 8) | (off + (size_t)i < b.size() ? b[off + (size_t)i] : 0);
    return v;
}

// offsets of embedded count / length fields in a payload of the given kind
// kind: 0 trackData, 1 overview, 2 beatData, 3 quickCues, 4 loops, 5 highres
struct CountField
{
    size_t off;
    int width;   // 8 or 1
    bool le;
    int64_t fit;  // value that fits exactly
};
std::vector<CountField> count_fields(int kind, const Bytes& p)
{
    std::vector<CountField> v;
    if (kind == 1 || kind == 5)
    {
        int64_t n = (int64_t)get_be64(p, 0);
        v.push_back({0, 8, false, n});
        v.push_back({8, 8, false, n});
    }
    else if (kind == 2 && p.size() >= 25)
    {
        int64_t n1 = (int64_t)get_be64(p, 17);
        v.push_back({17, 8, false, n1});
        if (n1 >= 0 && n1 < 100000)
        {
            size_t off2 = 25 + (size_t)n1 * 24;
            if (off2 + 8 <= p.size())
                v.push_back({off2, 8, false, (int64_t)get_be64(p, off2)});
        }
    }
    else if (kind == 3 && p.size() >= 8)
    {
        int64_t n = (int64_t)get_be64(p, 0);
        v.push_back({0, 8, false, n});
        size_t off = 8;
        for (int64_t i = 0; i < n && i < 16 && off < p.size(); ++i)
        {
            v.push_back({off, 1, false, p[off]});
            off += 1 + p[off] + 12;
        }
    }
    else if (kind == 4 && p.size() >= 8)
    {
        uint64_t n = 0;
        for (int i = 7; i >= 0; --i)
            n = (n << 8) | p[(size_t)i];
        v.push_back({0, 8, true, (int64_t)n});
        size_t off = 8;
        for (uint64_t i = 0; i < n && i < 16 && off < p.size(); ++i)
        {
            v.push_back({off, 1, false, p[off]});
            off += 1 + p[off] + 22;
        }
    }
    return v;
}
}  // namespace

void World::corrupt_blob(const Step& s, int ti)
{
    auto arg = [&](size_t i) { return i < s.a.size() ? s.a[i] : 0; };
    Rng r(s.vseed ^ 0xC0 ^ 0x44A55ull);
    int64_t id = tracks[ti].id;
    Payloads cur = read_payloads(*this, id);
    if (!cur.found)
        return;
    const int nk = v2 ? 5 : 6;
    int kind = (int)((uint64_t)arg(1) % (uint64_t)nk);
    const char* col = kBlobCols1[kind];
    const Bytes* raws[] = {&cur.rtd, &cur.rov, &cur.rbd, &cur.rqc, &cur.rlp, &cur.rhr};
    const Bytes* pays[] = {&cur.td, &cur.ov, &cur.bd, &cur.qc, &cur.lp, &cur.hr};
    const Bytes pristine = *raws[kind];
    Bytes payload = *pays[kind];
    const bool compressed = kind != 4;
    Bytes cell = pristine;
    unsigned oper = (unsigned)((uint64_t)arg(2) % 13);
    // what the track looked like before the damage (if it was readable): once the pristine bytes are back the library
    // must read it again, whatever a failed decode did to the decoder's own state in between
    std::optional<dj::track_snapshot> snap_before;
    bool modified_while_damaged = false;
    if (ti >= 0 && (size_t)ti < tracks.size() && tracks[ti].h)
    {
        Outcome o = call(FaultSpec{}, [&] { snap_before = tracks[ti].h->snapshot(); });
        if (o.threw)
            snap_before.reset();
    }
    if (oper == 12 && kind != 2)
        oper = 2;
    std::string what;
    auto rewrap = [&](const Bytes& p) { return compressed ? ref::zwrap(p, 6) : p; };
    switch (oper)
    {
        case 0:  // truncate the stored cell at any length
        {
            size_t L = cell.empty() ? 0 : (size_t)((uint64_t)arg(3) * 2654435761ull % cell.size());
            if (cell.size() <= 1000)
                L = cell.empty() ? 0 : (size_t)((uint64_t)arg(3) % cell.size());
            else if (r.chance(1, 3))
            {
                // stored lengths around whole multiples of the decompressor's 16 KiB input chunk (+ the 4-byte prefix)
                static const size_t edge[] = {16388, 16387, 16389, 32772, 32771, 32773, 49156, 16384, 4, 5};
                size_t e = edge[r.below(10)];
                if (e < cell.size())
                    L = e;
            }
            cell.resize(L);
            what = "cell truncated to " + std::to_string(L) + " of " + std::to_string(pristine.size());
            break;
        }
        case 1:  // bit flips in the stored (compressed) bytes
        {
            size_t flips = 1 + r.below(4);
            for (size_t i = 0; i < flips && !cell.empty(); ++i)
                cell[r.below(cell.size())] ^= (uint8_t)(1u << r.below(8));
            what = std::to_string(flips) + " bit flips in the stored bytes";
            break;
        }
        case 2:  // byte edits in the payload, re-deflated
        {
            size_t edits = 1 + r.below(4);
            for (size_t i = 0; i < edits && !payload.empty(); ++i)
                payload[r.below(payload.size())] = (uint8_t)r.below(256);
            cell = rewrap(payload);
            what = std::to_string(edits) + " payload bytes overwritten";
            break;
        }
        case 3:
        case 4:  // an embedded count / length field set to a boundary value
        {
            auto cf = count_fields(kind, payload);
            if (cf.empty())
            {
                // no count fields in this kind: absurd prefix instead
                if (cell.size() >= 4)
                    cell[0] = 0x7f;
                what = "length prefix made huge";
                break;
            }
            auto& f = cf[(size_t)((uint64_t)arg(3) % cf.size())];
            int64_t v = kCounts[r.below(sizeof kCounts / sizeof *kCounts)];
            if (v == -1000)
                v = f.fit;
            else if (v == -1001)
                v = f.fit + 1;
            if (f.width == 1)
                payload[f.off] = (uint8_t)v;
            else if (f.le)
                put_le64(payload, f.off, (uint64_t)v);
            else
                put_be64(payload, f.off, (uint64_t)v);
            // overview / high-res carry the count twice: keep them in step half of the time
            if ((kind == 1 || kind == 5) && r.chance(1, 2))
            {
                put_be64(payload, 0, (uint64_t)v);
                put_be64(payload, 8, (uint64_t)v);
            }
            cell = rewrap(payload);
            what = "count field at payload offset " + std::to_string(f.off) + " set to " + std::to_string(v);
            break;
        }
        case 5:  // the 4-byte length prefix rewritten
        {
            if (cell.size() >= 4 && compressed)
            {
                uint32_t n = (uint32_t)payload.size();
                static const int64_t d[] = {0, 1, -1, 1000000};
                uint32_t pv;
                switch (r.below(7))
                {
                    case 0: pv = 0; break;
                    case 1: pv = 1; break;
                    case 2: pv = n + 1; break;
                    case 3: pv = n ? n - 1 : 0xffffffffu; break;
                    case 4: pv = 0x80000000u; break;
                    case 5: pv = 0x7fffffffu; break;
                    default: pv = 0xffffffffu; break;
                }
                (void)d;
                cell[0] = (uint8_t)(pv >> 24);
                cell[1] = (uint8_t)(pv >> 16);
                cell[2] = (uint8_t)(pv >> 8);
                cell[3] = (uint8_t)pv;
                what = "length prefix set to " + std::to_string(pv) + " (true " + std::to_string(n) + ")";
            }
            else
            {
                cell.resize(cell.size() / 2);
                what = "uncompressed cell halved";
            }
            break;
        }
        case 6:  // valid stream followed by garbage
        {
            for (size_t i = 0, n = 1 + r.below(40); i < n; ++i)
                cell.push_back((uint8_t)r.below(256));
            what = "trailing garbage after the stream";
            break;
        }
        case 7:  // stream cut shortly before its end marker
        {
            size_t cut = 1 + r.below(8);
            cell.resize(cell.size() > cut ? cell.size() - cut : 0);
            what = "last " + std::to_string(cut) + " stored bytes dropped";
            break;
        }
        case 8:  // tiny cells
        {
            size_t n = r.below(5);
            cell.assign(n, (uint8_t)r.below(256));
            if (n == 4)
                cell = {0, 0, 0, (uint8_t)r.below(3)};
            what = "cell replaced by " + std::to_string(n) + " bytes";
            break;
        }
        case 9:  // payload truncated at any length, framed correctly
        {
            size_t L = payload.empty() ? 0 : (size_t)((uint64_t)arg(3) % payload.size());
            if (r.chance(1, 2) && payload.size() > 64)
                L = payload.size() - 1 - r.below(64);
            payload.resize(L);
            cell = rewrap(payload);
            what = "payload truncated to " + std::to_string(L) + " bytes (frame intact)";
            break;
        }
        case 10:  // lost write: a range zeroed
        {
            if (!cell.empty())
            {
                size_t a = r.below(cell.size()), n = 1 + r.below(64);
                for (size_t i = a; i < cell.size() && i < a + n; ++i)
                    cell[i] = 0;
            }
            what = "a range of the stored bytes zeroed";
            break;
        }
        case 12:  // beat grid: marker indices and beat counts moved to the edges of their integer types, order kept
        {
            ref::BeatData bdv;
            std::string e;
            if (!ref::dec_beat(payload, bdv, e))
            {
                cell.resize(cell.size() / 2);
                what = "beat data not decodable: halved instead";
                break;
            }
            static const int32_t beats[] = {1, 4, INT32_MAX, INT32_MIN, -1, 0, 65536};
            bool high = r.chance(1, 2);
            for (auto* g : {&bdv.def, &bdv.adj})
            {
                size_t n = g->size();
                for (size_t i = 0; i < n; ++i)
                {
                    (*g)[i].beat = high ? (int64_t)INT32_MAX - (int64_t)(n - 1 - i) : (int64_t)INT32_MIN + (int64_t)i;
                    if (r.chance(1, 8))
                        (*g)[i].beat = high ? INT64_MAX - (int64_t)(n - 1 - i) : INT64_MIN + (int64_t)i;
                    (*g)[i].beats_to_next = r.chance(1, 2) ? (i + 1 < n ? 1 : 0) : beats[r.below(7)];
                }
            }
            cell = rewrap(ref::enc_beat(bdv));
            what = std::string("beat grid indices moved to the ") + (high ? "upper" : "lower") + " edge of int";
            break;
        }
        default:  // torn write: a range duplicated
        {
            if (cell.size() > 8)
            {
                size_t a = r.below(cell.size() - 4), n = 1 + r.below(32);
                Bytes dup(cell.begin() + (long)a, cell.begin() + (long)std::min(cell.size(), a + n));
                cell.insert(cell.begin() + (long)a, dup.begin(), dup.end());
            }
            what = "a range of the stored bytes duplicated";
            break;
        }
    }
    std::string err;
    bool null_cell = oper == 8 && cell.empty() && r.chance(1, 2);
    {
        HDb d;
        if (!d.open(db_path(*this, true), false))
            return;
        std::string table = v2 ? "Track" : "PerformanceData";
        if (!d.run("UPDATE " + table + " SET " + col + " = ? WHERE id = ?", {null_cell ? HDb::Bind::Null() : HDb::Bind::Blob(cell), HDb::Bind::Int(id)}))
        {
            note("f_corrupt: store failed: " + d.err);  // e.g. NOT NULL column
            probes.hit("corrupt_store_refused");
            return;
        }
    }
    note("f_corrupt track " + std::to_string(id) + " " + col + ": " + what);
    log.str(what);
    gate_log.str(std::string("f_corrupt:") + col + ":" + std::to_string(oper));
    probes.hit("corruptions");
    probes.hit(std::string("corrupt_op_") + std::to_string(oper));
    op_counts[std::string("f_corrupt:") + col]++;
    if (arg(0) & 1024)
    {
        // damage found after a restart rather than under a live connection
        Rng rr(s.vseed);
        close_all(&rr);
        if (!reload())
        {
            note("  reload after corruption failed (acceptable)");
            stop = true;
            stop_reason = "library not loadable after corruption";
            return;
        }
        for (size_t i = 0; i < tracks.size(); ++i)
            if (tracks[i].id == id)
                ti = (int)i;
        probes.hit("corrupt_then_reload");
    }
    // ---- readers: everything that decodes the damaged cell
    uint64_t threw = 0, ok = 0;
    auto rd = [&](const char* name, auto&& fn) {
        Outcome o = call(FaultSpec{}, fn);
        (o.threw ? threw : ok)++;
        if (tracing)
            note(std::string("  ") + name + (o.threw ? " -> threw " + o.exc + ": " + o.what.substr(0, 80) : " -> ok"));
        gate_log.str(o.threw ? "threw:" + o.exc : "ok");
    };
    if (ti >= 0 && (size_t)ti < tracks.size() && tracks[ti].h)
    {
        auto& t = *tracks[ti].h;
        // a state with a damaged cell is a reachable state too: reading it must not write (C16)
        check_purity_begin();
        rd("snapshot", [&] { (void)t.snapshot(); });
        (void)observe_track(t);  // every getter, guarded; foreign exceptions are reported there
        rd("snapshot", [&] { (void)t.snapshot(); });
        check_purity_end("read-damaged");
        probes.hit("purity_checked_on_damaged");
        if (r.chance(1, 3))
        {
            modified_while_damaged = true;
            // read-modify-write on damaged data must be safe too
            rd("set_main_cue", [&] { t.set_main_cue(123.0); });
            rd("set_hot_cue_at", [&] { t.set_hot_cue_at(0, std::nullopt); });
            rd("set_loop_at", [&] { t.set_loop_at(7, std::nullopt); });
            rd("set_sample_rate", [&] { t.set_sample_rate(44100.0); });
            rd("set_beatgrid", [&] { t.set_beatgrid({}); });
        }
    }
    if (v2 && tstate && tstate->lib)
    {
        auto tt = tstate->lib->track();
        check_purity_begin();
        rd("track_table::get", [&] { (void)tt.get(id); });
        rd("get_track_data", [&] { (void)tt.get_track_data(id); });
        rd("get_overview_waveform_data", [&] { (void)tt.get_overview_waveform_data(id); });
        rd("get_beat_data", [&] { (void)tt.get_beat_data(id); });
        rd("get_quick_cues", [&] { (void)tt.get_quick_cues(id); });
        rd("get_loops", [&] { (void)tt.get_loops(id); });
        check_purity_end("table-read-damaged");
    }
    if (v2)
    {
        std::vector<std::byte> bytes(cell.size());
        if (!cell.empty())
            memcpy(bytes.data(), cell.data(), cell.size());
        switch (kind)
        {
            case 0: rd("track_data_blob::from_blob", [&] { (void)v2::track_data_blob::from_blob(bytes); }); break;
            case 1: rd("overview_waveform_data_blob::from_blob", [&] { (void)v2::overview_waveform_data_blob::from_blob(bytes); }); break;
            case 2: rd("beat_data_blob::from_blob", [&] { (void)v2::beat_data_blob::from_blob(bytes); }); break;
            case 3: rd("quick_cues_blob::from_blob", [&] { (void)v2::quick_cues_blob::from_blob(bytes); }); break;
            default: rd("loops_blob::from_blob", [&] { (void)v2::loops_blob::from_blob(bytes); }); break;
        }
    }
    if (threw)
        probes.hit("decoder_threw_on_corrupt", threw);
    if (ok)
        probes.hit("decoder_accepted_corrupt", ok);
    // put the pristine bytes back so that the next corruption starts from a valid blob
    if (!(arg(0) & 2048))
    {
        HDb d;
        if (d.open(db_path(*this, true), false))
        {
            std::string table = v2 ? "Track" : "PerformanceData";
            d.run("UPDATE " + table + " SET " + col + " = ? WHERE id = ?", {HDb::Bind::Blob(pristine), HDb::Bind::Int(id)});
        }
        d.close();
        if (snap_before && ti >= 0 && (size_t)ti < tracks.size() && tracks[ti].h)
        {
            // the stored bytes are again exactly what the library (or the independent encoder) wrote: the codecs must
            // decode them as before - a decoder that a failed decode left unusable breaks C03 / C02 for every later value
            const std::string owner = foreign_tracks.count(id) ? "C02" : "C03";
            std::optional<dj::track_snapshot> after;
            Outcome o = call(FaultSpec{}, [&] { after = tracks[ti].h->snapshot(); });
            if (o.threw)
                report(owner, owner + "|restored-cell|" + fam() + "|unreadable",
                       "track " + std::to_string(id) + " was readable, a stored blob was damaged and then put back byte for byte: snapshot() now throws " +
                           o.exc + ": " + o.what);
            else if (!modified_while_damaged && after && render_snapshot(*after) != render_snapshot(*snap_before))  // doubles by bit pattern (NaN)
                report(owner, owner + "|restored-cell|" + fam() + "|differs",
                       "track " + std::to_string(id) + ": a stored blob was damaged and then put back byte for byte, and snapshot() returns something else than before");
            probes.hit("restored_cell_read_back");
        }
    }
    else
        probes.hit("corruption_left_in_place");
}


// C05, systematic part: walk a whole grid of damaged variants of one stored blob
// (every truncation length, a byte damaged at every offset, every count field at
// every boundary value) instead of sampling single points.
void World::corrupt_grid(const Step& s, int ti)
{
    auto arg = [&](size_t i) { return i < s.a.size() ? s.a[i] : 0; };
    int64_t id = tracks[ti].id;
    Payloads cur = read_payloads(*this, id);
    if (!cur.found || !cur.err.empty())
        return;
    const int nk = v2 ? 5 : 6;
    int kind = (int)((uint64_t)arg(1) % (uint64_t)nk);
    const char* col = kBlobCols1[kind];
    const Bytes* raws[] = {&cur.rtd, &cur.rov, &cur.rbd, &cur.rqc, &cur.rlp, &cur.rhr};
    const Bytes* pays[] = {&cur.td, &cur.ov, &cur.bd, &cur.qc, &cur.lp, &cur.hr};
    const Bytes pristine = *raws[kind];
    const Bytes payload = *pays[kind];
    const bool compressed = kind != 4;
    auto rewrap = [&](const Bytes& p) { return compressed ? ref::zwrap(p, 6) : p; };
    unsigned mode = (unsigned)((uint64_t)arg(2) % 5);
    const size_t cap = pristine.size() > 8000 ? 350 : 1500;  // large blobs: fewer, equally spread variants
    std::vector<Bytes> variants;
    auto stride = [&](size_t n) { return n <= cap ? (size_t)1 : (n + cap - 1) / cap; };
    switch (mode)
    {
        case 0:  // every truncation of the stored cell
            for (size_t L = 0, st = stride(pristine.size() + 1); L <= pristine.size(); L += st)
                variants.emplace_back(pristine.begin(), pristine.begin() + (long)L);
            for (size_t L : {(size_t)16384, (size_t)16387, (size_t)16388, (size_t)16389, (size_t)32772, (size_t)49156})
                if (L < pristine.size())
                    variants.emplace_back(pristine.begin(), pristine.begin() + (long)L);
            break;
        case 1:  // every truncation of the payload inside an intact frame
            for (size_t L = 0, st = stride(payload.size() + 1); L <= payload.size(); L += st)
                variants.push_back(rewrap(Bytes(payload.begin(), payload.begin() + (long)L)));
            break;
        case 2:  // one byte damaged at every offset of the stored cell
            for (size_t i = 0, st = stride(pristine.size() * 2); i < pristine.size(); i += st)
                for (uint8_t x : {(uint8_t)0xFF, (uint8_t)0x01})
                {
                    Bytes v = pristine;
                    v[i] ^= x;
                    variants.push_back(std::move(v));
                }
            break;
        case 3:  // one byte damaged at every offset of the payload, re-deflated
            for (size_t i = 0, st = stride(payload.size() * 2); i < payload.size(); i += st)
                for (uint8_t x : {(uint8_t)0xFF, (uint8_t)0x80})
                {
                    Bytes v = payload;
                    v[i] ^= x;
                    variants.push_back(rewrap(v));
                }
            break;
        default:  // every count / length field at every boundary value
        {
            auto cf = count_fields(kind, payload);
            for (auto& f : cf)
                for (int64_t bv : kCounts)
                {
                    int64_t v = bv == -1000 ? f.fit : (bv == -1001 ? f.fit + 1 : bv);
                    Bytes pl = payload;
                    if (f.width == 1)
                        pl[f.off] = (uint8_t)v;
                    else if (f.le)
                        put_le64(pl, f.off, (uint64_t)v);
                    else
                        put_be64(pl, f.off, (uint64_t)v);
                    variants.push_back(rewrap(pl));
                    if (kind == 1 || kind == 5)
                    {
                        put_be64(pl, 0, (uint64_t)v);
                        put_be64(pl, 8, (uint64_t)v);
                        variants.push_back(rewrap(pl));
                    }
                }
            // the 4-byte prefix too
            if (compressed && pristine.size() >= 4)
                for (uint32_t pv : {0u, 1u, (uint32_t)payload.size() + 1, (uint32_t)payload.size() - 1, 0x80000000u, 0x7fffffffu, 0xffffffffu})
                {
                    Bytes v = pristine;
                    v[0] = (uint8_t)(pv >> 24);
                    v[1] = (uint8_t)(pv >> 16);
                    v[2] = (uint8_t)(pv >> 8);
                    v[3] = (uint8_t)pv;
                    variants.push_back(std::move(v));
                }
            break;
        }
    }
    note("f_grid track " + std::to_string(id) + " " + col + " mode " + std::to_string(mode) + ": " + std::to_string(variants.size()) + " variants");
    log.str(std::string("f_grid:") + col + ":" + std::to_string(mode));
    gate_log.str(std::string("f_grid:") + col + ":" + std::to_string(mode));
    HDb d;
    if (!d.open(db_path(*this, true), false))
        return;
    std::string table = v2 ? "Track" : "PerformanceData";
    const std::string upd = "UPDATE " + table + " SET " + col + " = ? WHERE id = ?";
    uint64_t threw = 0, ok = 0;
    auto rd = [&](auto&& fn) {
        Outcome o = call(FaultSpec{}, fn);
        (o.threw ? threw : ok)++;
    };
    auto& t = *tracks[ti].h;
    size_t n = 0;
    for (auto& cell : variants)
    {
        ++n;
        if (v2)
        {
            std::vector<std::byte> bytes(cell.size());
            if (!cell.empty())
                memcpy(bytes.data(), cell.data(), cell.size());
            switch (kind)
            {
                case 0: rd([&] { (void)v2::track_data_blob::from_blob(bytes); }); break;
                case 1: rd([&] { (void)v2::overview_waveform_data_blob::from_blob(bytes); }); break;
                case 2: rd([&] { (void)v2::beat_data_blob::from_blob(bytes); }); break;
                case 3: rd([&] { (void)v2::quick_cues_blob::from_blob(bytes); }); break;
                default: rd([&] { (void)v2::loops_blob::from_blob(bytes); }); break;
            }
        }
        // through the store: always on 1.x (the decoders are internal), every 6th variant on 2.x
        if (!v2 || n % 6 == 0)
        {
            if (!d.run(upd, {HDb::Bind::Blob(cell), HDb::Bind::Int(id)}))
                continue;
            // reading the damaged cell must not write (C16): counters only, the image is hashed in the sampled profile
            const uint64_t w0 = g_disk.lib_writes + g_disk.lib_truncates + g_disk.lib_deletes;
            const int64_t c0 = g_taps.total_changes();
            rd([&] { (void)t.snapshot(); });
            if (n % 24 == 0)
                (void)observe_track(t);
            if (g_disk.lib_writes + g_disk.lib_truncates + g_disk.lib_deletes != w0 || g_taps.total_changes() != c0)
                report("C16", "C16|read-damaged|" + fam() + "|disk-write", "reading a track whose stored " + std::string(col) + " cell is damaged wrote to the database");
        }
        if (stop)
            break;
    }
    d.run(upd, {HDb::Bind::Blob(pristine), HDb::Bind::Int(id)});
    probes.hit("corruptions", variants.size());
    probes.hit("grid_walks");
    probes.hit("grid_mode_" + std::to_string(mode));
    op_counts[std::string("f_grid:") + col]++;
    if (threw)
        probes.hit("decoder_threw_on_corrupt", threw);
    if (ok)
        probes.hit("decoder_accepted_corrupt", ok);
}

void World::corrupt_pages(const Step& s)
{
    // raw page-level bit flips bypass SQLite, so they are applied while the library is closed
    auto arg = [&](size_t i) { return i < s.a.size() ? s.a[i] : 0; };
    Rng r(s.vseed ^ 0x9A6E);
    for (auto& t : tracks)
        if (!t.live)
            t.h.reset();
    for (auto& c : crates)
        if (!c.live)
            c.h.reset();
    close_all(&r);
    if (g_disk.open_handles() != 0)
        return;
    DiskImage img = g_disk.snapshot();
    std::string path = db_path(*this, (arg(0) & 1) != 0);
    auto it = g_disk.files.find(path);
    if (it == g_disk.files.end() || it->second->bytes.size() < 1024)
        return;
    auto& bytes = it->second->bytes;
    size_t flips = 1 + r.below(6);
    for (size_t i = 0; i < flips; ++i)
    {
        // skip the first 100 bytes (file header) most of the time
        size_t pos = r.chance(1, 8) ? r.below(100) : 100 + r.below(bytes.size() - 100);
        bytes[pos] ^= (uint8_t)(1u << r.below(8));
    }
    note("f_pageflip " + path + ": " + std::to_string(flips) + " bit flips");
    log.str("f_pageflip");
    gate_log.str("f_pageflip");
    probes.hit("page_corruptions");
    bool loaded = false;
    {
        // load_database may refuse (std::exception) - that is an acceptable outcome
        eng::engine_schema ls{};
        Outcome o = call(FaultSpec{}, [&] {
            if (plan.cfg.table_api && v2 && tstate)
            {
                tstate->lib = djinterop::engine::v2::engine_library::load(api_dir());
                db = tstate->lib->database();
            }
            else
                db = eng::load_database(api_dir(), ls);
        });
        loaded = !o.threw;
        gate_log.str(o.threw ? "load threw:" + o.exc : "load ok");
        if (o.threw)
            probes.hit("load_refused_corrupt_file");
    }
    if (loaded)
    {
        // observe everything: every answer is a value or a std::exception
        std::vector<TrackSlot> keep_t = tracks;
        std::vector<CrateSlot> keep_c = crates;
        tracks.clear();
        crates.clear();
        (void)observe();
        Outcome v = call(FaultSpec{}, [&] { db->verify(); });
        (void)v;
        probes.hit("observed_after_page_corruption");
        tracks = keep_t;
        crates = keep_c;
    }
    // restore the undamaged image and carry on
    for (auto& t : tracks)
        t.h.reset();
    for (auto& c : crates)
        c.h.reset();
    close_all(nullptr);
    if (g_disk.open_handles() != 0)
    {
        stop = true;
        stop_reason = "files left open after page corruption";
        return;
    }
    g_disk.restore(img);
    if (!reload())
    {
        stop = true;
        stop_reason = "reload after restoring the undamaged image failed";
    }
    have_prev = false;
}

// ------------------------------------------------------------------ C02 converse, schema 1.x
// The independent encoder stores the six 1.x blobs (in the shapes the 1.x
// format allows: grids of 0 or >= 2 increasing markers, main-cue flag consistent
// with the two cue values, no trailing bytes) and the library must read back
// the same logical content through the public track API.
void World::foreign_write_v1(const Step& s, int64_t id, int ti)
{
    Rng r(s.vseed ^ 0xF1F1F1ull);
    ref::TrackData1 td;
    static const double rates[] = {44100, 48000, 0, 22050.5, 96000, 1.5};
    td.sample_rate = rates[r.below(6)];
    static const int64_t ss[] = {0, 1, 44100 * 300, 1ll << 40, 16061375};
    td.samples = ss[r.below(5)];
    td.loudness = r.chance(1, 4) ? 0.0 : r.unit();
    td.key = (int32_t)r.below(25);
    ref::HighRes hr;
    size_t hn = r.chance(1, 3) ? 0 : (s.size >= 3 ? 3000 + r.below(3000) : r.below(200));
    hr.n1 = hr.n2 = (int64_t)hn;
    hr.samples_per_entry = (double)r.range(0, 1000);
    for (size_t i = 0; i < hn; ++i)
    {
        uint64_t x = r.next();
        hr.pts.push_back({(uint8_t)x, (uint8_t)(x >> 8), (uint8_t)(x >> 16), (uint8_t)(x >> 24), (uint8_t)(x >> 32), (uint8_t)(x >> 40)});
    }
    {
        uint64_t x = r.next();
        hr.max = {(uint8_t)x, (uint8_t)(x >> 8), (uint8_t)(x >> 16), (uint8_t)(x >> 24), (uint8_t)(x >> 32), (uint8_t)(x >> 40)};
    }
    ref::Overview ov;
    size_t on = r.chance(1, 3) ? 0 : 1024;
    ov.n1 = ov.n2 = (int64_t)on;
    ov.samples_per_point = (double)r.range(0, 100000);
    for (size_t i = 0; i < on; ++i)
    {
        uint64_t x = r.next();
        ov.pts.push_back({(uint8_t)x, (uint8_t)(x >> 8), (uint8_t)(x >> 16)});
    }
    ref::BeatData bd;
    bd.sample_rate = td.sample_rate;
    bd.samples = (double)td.samples;
    bd.is_set = (uint8_t)r.below(3);
    auto grid1 = [&](size_t n) {
        std::vector<ref::Marker> g;
        int64_t beat = r.range(-8, 8);
        double off = (double)r.range(-1000, 1000) + 0.25;
        for (size_t i = 0; i < n; ++i)
        {
            ref::Marker m;
            m.offset = off;
            m.beat = beat;
            g.push_back(m);
            beat += r.range(1, 64);
            off += (double)r.range(1, 100000) + r.unit();
        }
        for (size_t i = 0; i + 1 < g.size(); ++i)
            g[i].beats_to_next = (int32_t)(g[i + 1].beat - g[i].beat);
        return g;
    };
    size_t gn = r.chance(1, 3) ? 0 : 2 + r.below(s.size >= 3 ? 900 : 12);
    bd.adj = grid1(gn);
    bd.def = r.chance(1, 2) ? bd.adj : grid1(r.chance(1, 2) ? 0 : 2 + r.below(5));
    if (r.chance(1, 2))
        bd.extra.assign(9, 0);
    ref::QuickCues qc;
    size_t cn = r.chance(1, 2) ? 8 : r.below(13);
    for (size_t i = 0; i < cn; ++i)
    {
        ref::Cue c;
        c.label = any_label(r);
        c.offset = r.chance(1, 3) ? -1.0 : (double)r.range(0, 10000000) + (r.chance(1, 2) ? 0.5 : 0);
        auto col = gen_color(r);
        c.a = col.a;
        c.r = col.r;
        c.g = col.g;
        c.b = col.b;
        qc.cues.push_back(c);
    }
    qc.adj_main = r.chance(1, 4) ? 0.0 : (double)r.range(1, 1000000);
    qc.def_main = r.chance(1, 2) ? qc.adj_main : (double)r.range(1, 1000000);
    qc.is_adj = qc.adj_main != qc.def_main ? 1 : (uint8_t)r.below(2);
    ref::Loops lp;
    size_t ln = r.chance(1, 2) ? 8 : r.below(13);
    for (size_t i = 0; i < ln; ++i)
    {
        ref::Loop l;
        l.label = any_label(r);
        l.start = r.chance(1, 3) ? -1.0 : (double)r.range(0, 10000000);
        l.end = (double)r.range(0, 20000000);
        l.start_set = l.end_set = l.start != -1.0;
        auto col = gen_color(r);
        l.a = col.a;
        l.r = col.r;
        l.g = col.g;
        l.b = col.b;
        lp.loops.push_back(l);
    }
    {
        HDb d;
        bool ok = d.open(db_path(*this, true), false) &&
                  d.run("UPDATE PerformanceData SET trackData = ?, highResolutionWaveFormData = ?, overviewWaveFormData = ?, beatData = ?, "
                        "quickCues = ?, loops = ? WHERE id = ?",
                        {HDb::Bind::Blob(ref::zwrap(ref::enc_track1(td), 1 + (int)r.below(9))),
                         HDb::Bind::Blob(ref::zwrap(ref::enc_highres(hr), 1 + (int)r.below(9))),
                         HDb::Bind::Blob(ref::zwrap(ref::enc_overview(ov), 1 + (int)r.below(9))),
                         HDb::Bind::Blob(ref::zwrap(ref::enc_beat(bd), 1 + (int)r.below(9))),
                         HDb::Bind::Blob(ref::zwrap(ref::enc_cues(qc), 1 + (int)r.below(9))), HDb::Bind::Blob(ref::enc_loops(lp)),
                         HDb::Bind::Int(id)});
        if (!ok)
        {
            note("f_write1 failed: " + d.err);
            return;
        }
    }
    if (td.key != 0)
    {
        // Engine keeps the key twice (blob and integer metadata); a writer that stores one stores the other
        HDb m;
        if (!(m.open(db_path(*this, false), false) &&
              m.run("UPDATE MetaDataInteger SET value = ? WHERE id = ? AND type = 4", {HDb::Bind::Int(td.key), HDb::Bind::Int(id)})))
            note("f_write1: key metadata not updated: " + m.err);
    }
    foreign_tracks.insert(id);
    probes.hit("foreign_write");
    probes.hit("foreign_write_v1");
    note("f_write1 track " + std::to_string(id) + " -> stored");
    auto& t = *tracks[ti].h;
    std::string F = fam();
    auto bad = [&](const std::string& field, const std::string& why) {
        report("C02", "C02|foreign|" + F + "|track." + field,
               "1.x track " + std::to_string(id) + " holding blobs from the independent encoder: " + field + " " + why);
    };
    dj::track_snapshot sn;
    Outcome o = call(FaultSpec{}, [&] { sn = t.snapshot(); });
    if (o.threw)
    {
        report("C02", "C02|foreign|" + F + "|rejected", "snapshot() cannot read 1.x blobs the independent encoder produced: " + o.exc + ": " + o.what);
        return;
    }
    probes.hit("foreign_read_back");
    if (sn.sample_rate.has_value() != (td.sample_rate != 0) || (sn.sample_rate && !bits_eq(*sn.sample_rate, td.sample_rate)))
        bad("sample_rate", "differs from the stored value");
    if (sn.sample_count.has_value() != (td.samples != 0) || (sn.sample_count && *sn.sample_count != (unsigned long long)td.samples))
        bad("sample_count", "differs from the stored value");
    if (sn.average_loudness.has_value() != (td.loudness != 0) || (sn.average_loudness && !bits_eq(*sn.average_loudness, td.loudness)))
        bad("average_loudness", "differs from the stored value");
    // (a stored key of 0 means "none in the blob"; the snapshot then falls back to the key in the
    //  integer metadata, which the foreign writer did not touch)
    if (td.key != 0 && (!sn.key || (int32_t)*sn.key != td.key))
        bad("key", "differs from the stored value");
    if (sn.waveform.size() != hr.pts.size())
        bad("waveform", "has " + std::to_string(sn.waveform.size()) + " entries for " + std::to_string(hr.pts.size()) + " stored");
    else
        for (size_t i = 0; i < hr.pts.size(); ++i)
        {
            auto& e = sn.waveform[i];
            auto& q = hr.pts[i];
            if (e.low.value != q[0] || e.mid.value != q[1] || e.high.value != q[2] || e.low.opacity != q[3] || e.mid.opacity != q[4] ||
                e.high.opacity != q[5])
            {
                bad("waveform", "entry " + std::to_string(i) + " differs");
                break;
            }
        }
    if (sn.beatgrid.size() != bd.adj.size())
        bad("beatgrid", "has " + std::to_string(sn.beatgrid.size()) + " markers for " + std::to_string(bd.adj.size()) + " stored");
    else
        for (size_t i = 0; i < bd.adj.size(); ++i)
            if ((int64_t)sn.beatgrid[i].index != bd.adj[i].beat || !bits_eq(sn.beatgrid[i].sample_offset, bd.adj[i].offset))
            {
                bad("beatgrid", "marker " + std::to_string(i) + " differs");
                break;
            }
    if (sn.main_cue.has_value() != (qc.adj_main != 0) || (sn.main_cue && !bits_eq(*sn.main_cue, qc.adj_main)))
        bad("main_cue", "differs from the stored adjusted main cue");
    if (sn.hot_cues.size() < qc.cues.size())
        bad("hot_cues", "returns fewer slots than stored");
    for (size_t i = 0; i < sn.hot_cues.size(); ++i)
    {
        bool present = i < qc.cues.size() && qc.cues[i].offset != -1.0;
        if (sn.hot_cues[i].has_value() != present)
        {
            bad("hot_cues", "slot " + std::to_string(i) + " presence differs");
            break;
        }
        if (present)
        {
            auto& e = qc.cues[i];
            auto& c = *sn.hot_cues[i];
            if (c.label != e.label || !bits_eq(c.sample_offset, e.offset) || c.color.a != e.a || c.color.r != e.r || c.color.g != e.g || c.color.b != e.b)
            {
                bad("hot_cues", "slot " + std::to_string(i) + " content differs");
                break;
            }
        }
    }
    if (sn.loops.size() < lp.loops.size())
        bad("loops", "returns fewer slots than stored");
    for (size_t i = 0; i < sn.loops.size(); ++i)
    {
        bool present = i < lp.loops.size() && lp.loops[i].start != -1.0;
        if (sn.loops[i].has_value() != present)
        {
            bad("loops", "slot " + std::to_string(i) + " presence differs");
            break;
        }
        if (present)
        {
            auto& e = lp.loops[i];
            auto& c = *sn.loops[i];
            if (c.label != e.label || !bits_eq(c.start_sample_offset, e.start) || !bits_eq(c.end_sample_offset, e.end) || c.color.a != e.a ||
                c.color.r != e.r || c.color.g != e.g || c.color.b != e.b)
            {
                bad("loops", "slot " + std::to_string(i) + " content differs");
                break;
            }
        }
    }
}

bool World::exec_foreign_op(const Step& s)
{
    if (s.op.compare(0, 2, "f_") != 0)
        return false;
    auto arg = [&](size_t i) { return i < s.a.size() ? s.a[i] : 0; };
    if (!db || !plan.cfg.on_disk)
        return true;
    if (s.op == "f_seq")
    {
        // second-party state: a 2.x library whose AUTOINCREMENT counters are far along (ids at and beyond the edges
        // of 32-bit int and of what a double holds exactly).  Ids are int64 everywhere in the API; nothing else changes.
        if (!v2)
            return true;
        static const int64_t bases[] = {2147483645ll, 2147483647ll, 4294967293ll, 4294967296ll, 9007199254740991ll, 4611686018427387904ll};
        static const char* tables[] = {"Playlist", "Track", "PlaylistEntity"};
        int64_t base = bases[(uint64_t)arg(0) % 6];
        HDb d;
        bool ok = d.open(db_path(*this, true), false);
        std::string done;
        for (int k = 0; ok && k < 3; ++k)
        {
            if (!((arg(1) >> k) & 1) && arg(1) % 8 != 0)
                continue;
            int64_t cur = -1;
            d.run("SELECT seq FROM sqlite_sequence WHERE name = ?", {HDb::Bind::Text(tables[k])}, [&](sqlite3_stmt* st) { cur = sqlite3_column_int64(st, 0); });
            if (cur >= base)
                continue;
            if (cur < 0)
                ok = d.run("INSERT INTO sqlite_sequence (name, seq) VALUES (?, ?)", {HDb::Bind::Text(tables[k]), HDb::Bind::Int(base)});
            else
                ok = d.run("UPDATE sqlite_sequence SET seq = ? WHERE name = ?", {HDb::Bind::Int(base), HDb::Bind::Text(tables[k])});
            done += std::string(" ") + tables[k];
        }
        d.close();
        note("f_seq " + std::to_string(base) + ":" + done + (ok ? "" : " -> failed"));
        log.str("f_seq");
        gate_log.str("f_seq" + done);
        if (ok && !done.empty())
            probes.hit("foreign_large_ids");
        return true;
    }
    auto& FS = g_fstate[this];
    int ti = pick_live_track(arg(0));
    if (ti < 0)
    {
        note(s.op + " skipped: no live track");
        return true;
    }
    int64_t id = tracks[ti].id;
    Rng r(s.vseed ^ 0xF0F0ull);
    auto finish = [&](const std::string& what) {
        log.str(what);
        gate_log.str(what);
        Payloads p = read_payloads(*this, id);
        Hasher h;
        h.bytes(p.td.data(), p.td.size());
        h.bytes(p.ov.data(), p.ov.size());
        h.bytes(p.bd.data(), p.bd.size());
        h.bytes(p.qc.data(), p.qc.size());
        h.bytes(p.lp.data(), p.lp.size());
        state_hashes.insert(h.value());
        log.u64(h.value());
        // C06 on states only a second party produces (adjusted != default main cue, odd flags, 5 or 12 slots):
        // every getter must still agree with the corresponding snapshot field
        if (v2 && what != "f_corrupt" && what != "f_grid")
            for (auto& sl : tracks)
                if (sl.live && sl.h && sl.id == id)
                {
                    check_getter_vs_snapshot(observe_track(*sl.h));
                    probes.hit("foreign_getter_snapshot_checked");
                }
    };

    if (s.op == "f_write" || s.op == "f_mutate")
    {
        if (!v2 || !tstate || !tstate->lib)
            return true;
        Foreign f;
        if (s.op == "f_write")
            f = gen_foreign(s.vseed, s.size);
        else
        {
            // mutation of what is stored: flip bytes of one payload, keep it if the independent decoder still accepts it
            Payloads cur = read_payloads(*this, id);
            if (!cur.found || !cur.err.empty())
                return true;
            Bytes* pl[] = {&cur.td, &cur.ov, &cur.bd, &cur.qc, &cur.lp};
            Bytes& victim = *pl[r.below(5)];
            size_t flips = 1 + r.below(3);
            for (size_t i = 0; i < flips && !victim.empty(); ++i)
                victim[r.below(victim.size())] ^= (uint8_t)(1u << r.below(8));
            if (r.chance(1, 3))
                for (size_t i = 0, n = 1 + r.below(20); i < n; ++i)
                    victim.push_back((uint8_t)r.below(256));
            std::string e;
            bool ok = ref::dec_track2(cur.td, f.td, e) && (cur.ov.empty() || ref::dec_overview(cur.ov, f.ov, e)) && ref::dec_beat(cur.bd, f.bd, e) &&
                      ref::dec_cues(cur.qc, f.qc, e) && (cur.lp.empty() || ref::dec_loops(cur.lp, f.lp, e));
            if (!ok || cur.ov.empty() || cur.lp.empty())
            {
                note("f_mutate: mutated payload not accepted by the independent decoder (" + e + "); skipped");
                probes.hit("foreign_mutation_not_decodable");
                return true;
            }
        }
        std::string err;
        HDb d;
        bool ok = d.open(db_path(*this, true), false) &&
                  d.run("UPDATE Track SET trackData = ?, overviewWaveFormData = ?, beatData = ?, quickCues = ?, loops = ? WHERE id = ?",
                        {HDb::Bind::Blob(ref::zwrap(ref::enc_track2(f.td), 1 + (int)r.below(9))),
                         HDb::Bind::Blob(ref::zwrap(ref::enc_overview(f.ov), 1 + (int)r.below(9))),
                         HDb::Bind::Blob(ref::zwrap(ref::enc_beat(f.bd), 1 + (int)r.below(9))),
                         HDb::Bind::Blob(ref::zwrap(ref::enc_cues(f.qc), 1 + (int)r.below(9))), HDb::Bind::Blob(ref::enc_loops(f.lp)),
                         HDb::Bind::Int(id)});
        d.close();
        note(s.op + " track " + std::to_string(id) + (ok ? " -> stored" : " -> failed: " + d.err));
        if (!ok)
        {
            probes.hit("foreign_write_failed");
            return true;
        }
        FS.written[id] = f;
        foreign_tracks.insert(id);
        probes.hit("foreign_write");
        if (f.qc.cues.size() != 8 || f.lp.loops.size() != 8)
            probes.hit("foreign_slot_count_not_8");
        if (!f.td.extra.empty() || !f.qc.extra.empty() || !f.lp.extra.empty() || !f.ov.extra.empty())
            probes.hit("foreign_trailing_bytes");
        check_converse_v2(*this, id, f);
        finish(s.op);
        return true;
    }
    if (s.op == "f_unanalyse")
    {
        // second-party state the library itself never produces: a 1.x track without a PerformanceData row
        // (what Engine leaves behind for an imported, not yet analysed file)
        if (v2)
            return true;
        HDb d;
        bool ok = d.open(db_path(*this, true), false) && d.run("DELETE FROM PerformanceData WHERE id = ?", {HDb::Bind::Int(id)});
        d.close();
        note("f_unanalyse track " + std::to_string(id) + (ok ? " -> performance row deleted" : " -> failed"));
        if (ok)
        {
            probes.hit("foreign_unanalysed_track");
            unanalysed.insert(id);
        }
        log.str("f_unanalyse");
        gate_log.str("f_unanalyse");
        // the library's view changed behind its back: differential checks restart from here
        prev = observe();
        have_prev = true;
        return true;
    }
    if (s.op == "f_write1")
    {
        if (v2)
            return true;
        foreign_write_v1(s, id, ti);
        finish(s.op);
        // the library's view changed behind its back: differential checks (C06) restart from here
        if (check(CK_DIFF))
        {
            prev = observe();
            have_prev = true;
        }
        return true;
    }
    if (s.op == "f_corrupt")
    {
        corrupt_blob(s, ti);
        finish(s.op);
        return true;
    }
    if (s.op == "f_grid")
    {
        corrupt_grid(s, ti);
        finish(s.op);
        return true;
    }
    if (s.op == "f_pageflip")
    {
        corrupt_pages(s);
        return true;
    }
    if (!v2 || !tstate || !tstate->lib)
        return true;
    if (!foreign_tracks.count(id))
    {
        // prefer a track that does hold foreign data
        for (size_t i = 0; i < tracks.size(); ++i)
            if (tracks[i].live && tracks[i].h && foreign_tracks.count(tracks[i].id))
            {
                ti = (int)i;
                id = tracks[i].id;
                break;
            }
    }
    Payloads before = read_payloads(*this, id);
    if (!before.found || !before.err.empty())
    {
        note(s.op + " skipped: stored blobs not readable by the independent reader: " + before.err);
        return true;
    }
    auto tt = tstate->lib->track();
    if (s.op == "f_rmw_t")
    {
        // table API: get() then update() of the unchanged row
        std::optional<v2::track_row> row;
        Outcome og = call(FaultSpec{}, [&] { row = tt.get(id); });
        Outcome o = og;
        if (!og.threw && row)
        {
            o = call(s.fault, [&] { tt.update(*row); });
            // the decoders accepted every stored blob of this row: re-encoding the decoded value may not be refused
            if (o.threw && !o.fault_fired)
                report("C04", "C04|t_get_update|v2|reencode-refused",
                       "get() decoded the row's blobs but update() of the unchanged row threw " + o.exc + ": " + o.what);
        }
        note("f_rmw_t track " + std::to_string(id) + (o.threw ? " -> threw " + o.exc + ": " + o.what : " -> ok"));
        check_preserved(*this, "t_get_update", id, before, {}, o.threw);
        finish(s.op);
        return true;
    }
    if (s.op == "f_rmw_col")
    {
        unsigned k = (unsigned)((uint64_t)arg(1) % 5);
        static const char* names[] = {"track_data", "overview_waveform_data", "beat_data", "quick_cues", "loops"};
        bool decoded = false;
        Outcome o = call(s.fault, [&] {
            switch (k)
            {
                case 0: { auto v = tt.get_track_data(id); decoded = true; tt.set_track_data(id, v); break; }
                case 1: { auto v = tt.get_overview_waveform_data(id); decoded = true; tt.set_overview_waveform_data(id, v); break; }
                case 2: { auto v = tt.get_beat_data(id); decoded = true; tt.set_beat_data(id, v); break; }
                case 3: { auto v = tt.get_quick_cues(id); decoded = true; tt.set_quick_cues(id, v); break; }
                default: { auto v = tt.get_loops(id); decoded = true; tt.set_loops(id, v); break; }
            }
        });
        if (o.threw && decoded && !o.fault_fired)
            report("C04", std::string("C04|t_get_set_") + names[k] + "|v2|reencode-refused",
                   std::string("the ") + names[k] + " getter decoded the stored blob but writing the same value back threw " + o.exc + ": " +
                       o.what);
        note(std::string("f_rmw_col ") + names[k] + " track " + std::to_string(id) + (o.threw ? " -> threw " + o.exc + ": " + o.what : " -> ok"));
        check_preserved(*this, std::string("t_get_set_") + names[k], id, before, {}, o.threw);
        finish(s.op);
        return true;
    }
    if (s.op == "f_set")
    {
        // public single-field setter on a track holding foreign-shaped blobs
        int field = (int)arg(1);
        if (field != F_HOT_CUE_AT && field != F_LOOP_AT)
            field = (int)((uint64_t)arg(1) % F_COUNT);
        if (field == F_FILE_BYTES)
            field = F_TITLE;
        int slot = (int)((uint64_t)arg(2) % 8);
        GenFlags gf = plan.cfg.gf;
        gf.many_slots = false;
        gf.long_labels = false;
        auto donor = gen_snapshot(s.vseed, std::max(1, s.size), gf, ++uniq);
        if (!donor.relative_path)
            donor.relative_path = "foreign/p" + std::to_string(uniq) + ".mp3";
        std::string fname = field_name(field);
        Outcome o = call(s.fault, [&] { apply_setter(*tracks[ti].h, field, slot, donor, (arg(3) & 1) != 0); });
        note("f_set " + fname + " on track " + std::to_string(id) + (o.threw ? " -> threw " + o.exc + ": " + o.what : " -> ok"));
        op_counts["f_set:" + fname]++;
        check_preserved(*this, "set_" + fname, id, before, owned_by(field, slot), o.threw);
        if (!o.threw)
            probes.hit("foreign_setter_ok");
        finish(s.op);
        return true;
    }
    note("unknown foreign op " + s.op);
    return true;
}

void World::foreign_forget() { g_fstate.erase(this); }

// C02, written side, table API: the blobs stored for a row that actor T wrote are
// decoded by the independent codec and compared with the row model field by field.
void World::audit_table_row(int64_t id, const v2::track_row& row, const std::string& op)
{
    if (!plan.cfg.on_disk || !v2)
        return;
    Payloads stored = read_payloads(*this, id);
    if (!stored.found)
        return;
    if (!stored.err.empty())
    {
        report("C02", "C02|table-written|v2|frame", "row " + std::to_string(id) + " written through the table API: " + stored.err);
        return;
    }
    Foreign f;
    auto& td = row.track_data;
    f.td.sample_rate = td.sample_rate;
    f.td.samples = td.samples;
    f.td.key = td.key;
    f.td.loud_low = td.average_loudness_low;
    f.td.loud_mid = td.average_loudness_mid;
    f.td.loud_high = td.average_loudness_high;
    f.td.extra = to_bytes(td.extra_data);
    auto& ov = row.overview_waveform_data;
    f.ov.n1 = f.ov.n2 = (int64_t)ov.waveform_points.size();
    f.ov.samples_per_point = ov.samples_per_waveform_point;
    for (auto& q : ov.waveform_points)
        f.ov.pts.push_back({q.low_value, q.mid_value, q.high_value});
    f.ov.max = {ov.maximum_point.low_value, ov.maximum_point.mid_value, ov.maximum_point.high_value};
    f.ov.extra = to_bytes(ov.extra_data);
    auto& bd = row.beat_data;
    f.bd.sample_rate = bd.sample_rate;
    f.bd.samples = bd.samples;
    f.bd.is_set = bd.is_beatgrid_set;
    auto grid = [](const std::vector<v2::beat_grid_marker_blob>& g) {
        std::vector<ref::Marker> v;
        for (auto& m : g)
        {
            ref::Marker x;
            x.offset = m.sample_offset;
            x.beat = m.beat_number;
            x.beats_to_next = m.number_of_beats;
            x.unknown = m.unknown_value_1;
            v.push_back(x);
        }
        return v;
    };
    f.bd.def = grid(bd.default_beat_grid);
    f.bd.adj = grid(bd.adjusted_beat_grid);
    f.bd.extra = to_bytes(bd.extra_data);
    auto& qc = row.quick_cues;
    for (auto& c : qc.quick_cues)
    {
        ref::Cue x;
        x.label = c.label;
        x.offset = c.sample_offset;
        x.a = c.color.a;
        x.r = c.color.r;
        x.g = c.color.g;
        x.b = c.color.b;
        f.qc.cues.push_back(x);
    }
    f.qc.adj_main = qc.adjusted_main_cue;
    f.qc.def_main = qc.default_main_cue;
    f.qc.is_adj = qc.is_main_cue_adjusted ? 1 : 0;
    f.qc.extra = to_bytes(qc.extra_data);
    for (auto& l : row.loops.loops)
    {
        ref::Loop x;
        x.label = l.label;
        x.start = l.start_sample_offset;
        x.end = l.end_sample_offset;
        x.start_set = l.is_start_set;
        x.end_set = l.is_end_set;
        x.a = l.color.a;
        x.r = l.color.r;
        x.g = l.color.g;
        x.b = l.color.b;
        f.lp.loops.push_back(x);
    }
    f.lp.extra = to_bytes(row.loops.extra_data);
    Payloads expect;
    expect.found = true;
    expect.td = ref::enc_track2(f.td);
    expect.ov = ref::enc_overview(f.ov);
    expect.bd = ref::enc_beat(f.bd);
    expect.qc = ref::enc_cues(f.qc);
    expect.lp = ref::enc_loops(f.lp);
    for (auto& d : diff_payloads(expect, stored))
    {
        std::string generic = d;
        auto br = generic.find('[');
        if (br != std::string::npos)
            generic = generic.substr(0, br) + "[i]";
        report("C02", "C02|table-written|v2|" + generic,
               "row " + std::to_string(id) + " after " + op + ": the independent decoder reads " + d + " of the stored blob differently from the value written through the table API");
    }
    probes.hit("table_rows_audited");
}

}  // namespace djsim
