#include "simdisk.hpp"

#include <sqlite3.h>
#include <sys/stat.h>

#include <algorithm>
#include <cerrno>
#include <cstring>

#include "util.hpp"

namespace djsim
{
SimDisk g_disk;
int g_harness_depth = 0;
int64_t g_sim_clock = 1600000000;
uint64_t g_clock_reads = 0;
static Rng g_vfs_rng{12345};

static const char* kMethodNames[VM_COUNT] = {
    "open", "delete", "access", "read",   "write", "truncate",
    "sync", "filesize", "lock", "unlock", "close"};
const char* vfs_method_name(int m)
{
    return (m >= 0 && m < VM_COUNT) ? kMethodNames[m] : "?";
}
int vfs_method_from_name(const std::string& s)
{
    for (int i = 0; i < VM_COUNT; ++i)
        if (s == kMethodNames[i])
            return i;
    return -1;
}
static const char* kRoleNames[FR_COUNT] = {"m.db", "m.db-journal", "p.db",
                                           "p.db-journal", "temp", "other"};
const char* file_role_name(int r)
{
    return (r >= 0 && r < FR_COUNT) ? kRoleNames[r] : "?";
}
int file_role_from_name(const std::string& s)
{
    for (int i = 0; i < FR_COUNT; ++i)
        if (s == kRoleNames[i])
            return i;
    return -1;
}
int classify_role(const std::string& path)
{
    if (path.empty())
        return FR_TEMP;
    auto pos = path.rfind('/');
    std::string base = pos == std::string::npos ? path : path.substr(pos + 1);
    if (base.compare(0, 5, ".tmp-") == 0)
        return FR_TEMP;
    if (base == "m.db")
        return FR_MDB;
    if (base == "m.db-journal")
        return FR_MDB_JOURNAL;
    if (base == "p.db")
        return FR_PDB;
    if (base == "p.db-journal")
        return FR_PDB_JOURNAL;
    return FR_OTHER;
}

bool is_sim_path(const char* p)
{
    if (!p)
        return false;
    size_t n = strlen(kRoot);
    return strncmp(p, kRoot, n) == 0 && (p[n] == 0 || p[n] == '/');
}

std::string norm_path(const std::string& p)
{
    std::string out;
    for (char c : p)
    {
        if (c == '/' && !out.empty() && out.back() == '/')
            continue;
        out += c;
    }
    while (out.size() > 1 && out.back() == '/')
        out.pop_back();
    return out;
}

static std::string parent_of(const std::string& p)
{
    auto pos = p.rfind('/');
    if (pos == std::string::npos || pos == 0)
        return "/";
    return p.substr(0, pos);
}

void SimDisk::reset()
{
    files.clear();
    dirs.clear();
    dirs.insert(kRoot);
    sector_size = 4096;
    device_chars = 0;
    quota_bytes = -1;
    lib_writes = lib_truncates = lib_deletes = lib_syncs = lib_opens =
        lib_calls = 0;
    memset(call_count, 0, sizeof call_count);
    call_log.clear();
    record_calls = false;
    fault = Armed{};
    hook = nullptr;
}

void SimDisk::begin_api_call()
{
    memset(call_count, 0, sizeof call_count);
    call_log.clear();
}

DiskImage SimDisk::snapshot() const
{
    DiskImage img;
    for (auto& kv : files)
        img.files[kv.first] = kv.second->bytes;
    img.dirs = dirs;
    return img;
}

int SimDisk::open_handles() const
{
    int n = 0;
    for (auto& kv : files)
        n += kv.second->open_count;
    return n;
}

void SimDisk::restore(const DiskImage& img)
{
    files.clear();
    for (auto& kv : img.files)
    {
        auto fd = std::make_shared<FileData>();
        fd->bytes = kv.second;
        files[kv.first] = fd;
    }
    dirs = img.dirs;
}

uint64_t SimDisk::image_hash(bool include_journals) const
{
    Hasher h;
    for (auto& kv : files)
    {
        if (classify_role(kv.first) == FR_TEMP)
            continue;
        if (!include_journals)
        {
            int r = classify_role(kv.first);
            if (r == FR_MDB_JOURNAL || r == FR_PDB_JOURNAL)
                continue;
        }
        h.str(kv.first);
        h.u64(kv.second->bytes.size());
        h.bytes(kv.second->bytes.data(), kv.second->bytes.size());
    }
    for (auto& d : dirs)
        h.str(d);
    return h.value();
}

std::vector<std::string> SimDisk::list_files() const
{
    std::vector<std::string> v;
    for (auto& kv : files)
        v.push_back(kv.first);
    return v;
}

int SimDisk::on_call(int method, const std::string& path)
{
    if (in_harness())
        return 0;
    ++lib_calls;
    int role = classify_role(path);
    int ord = call_count[method][role]++;
    if (record_calls)
        call_log.push_back({method, role, ord});
    if (fault.armed && !fault.fired && fault.method == method &&
        fault.role == role && fault.ordinal == ord)
    {
        fault.fired = true;
        if (fault.persist && (fault.code & 0xff) == SQLITE_FULL)
        {
            // the disk stays full: nothing may grow until the API call returns
            int64_t t = 0;
            for (auto& kv : files)
                t += (int64_t)kv.second->bytes.size();
            quota_bytes = t;
        }
        return fault.code;
    }
    if (fault.armed && fault.fired && fault.persist && fault.method == method && fault.role == role &&
        (fault.code & 0xff) != SQLITE_FULL)
    {
        ++fault.refired;
        return fault.code;
    }
    if (hook)
        return hook(method, role, path);
    return 0;
}

// ------------------------------------------------------------------ VFS
namespace
{
struct SimFile
{
    sqlite3_file base;
    std::shared_ptr<FileData>* data;  // heap-allocated holder
    std::string* path;
    int lock_level;
    int flags;
    bool harness_owned;
};

std::shared_ptr<FileData>& fd_of(sqlite3_file* f)
{
    return *reinterpret_cast<SimFile*>(f)->data;
}
SimFile* sf(sqlite3_file* f) { return reinterpret_cast<SimFile*>(f); }

int lib_fault(SimFile* f, int method)
{
    if (f->harness_owned)
        return 0;
    // temporarily honour ownership of the file, not of the current scope
    int saved = g_harness_depth;
    g_harness_depth = 0;
    int rc = g_disk.on_call(method, *f->path);
    g_harness_depth = saved;
    return rc;
}

int xClose(sqlite3_file* file)
{
    SimFile* f = sf(file);
    int frc = lib_fault(f, VM_CLOSE);
    auto& fd = fd_of(file);
    // release locks
    if (f->lock_level >= SQLITE_LOCK_SHARED)
    {
        if (fd->reserved_by == f)
            fd->reserved_by = nullptr;
        if (fd->pending_by == f)
            fd->pending_by = nullptr;
        if (fd->exclusive_by == f)
            fd->exclusive_by = nullptr;
        fd->n_shared--;
    }
    fd->open_count--;
    if (f->flags & SQLITE_OPEN_DELETEONCLOSE)
    {
        auto it = g_disk.files.find(*f->path);
        if (it != g_disk.files.end() && it->second == fd)
            g_disk.files.erase(it);
    }
    delete f->data;
    delete f->path;
    f->data = nullptr;
    f->path = nullptr;
    (void)frc;  // SQLite ignores close errors; the resources are released
    return SQLITE_OK;
}

int xRead(sqlite3_file* file, void* buf, int amt, sqlite3_int64 ofs)
{
    SimFile* f = sf(file);
    if (int rc = lib_fault(f, VM_READ))
        return rc;
    auto& b = fd_of(file)->bytes;
    int64_t size = (int64_t)b.size();
    if (ofs >= size)
    {
        memset(buf, 0, amt);
        return SQLITE_IOERR_SHORT_READ;
    }
    int64_t avail = size - ofs;
    if (avail >= amt)
    {
        memcpy(buf, b.data() + ofs, amt);
        return SQLITE_OK;
    }
    memcpy(buf, b.data() + ofs, (size_t)avail);
    memset((char*)buf + avail, 0, (size_t)(amt - avail));
    return SQLITE_IOERR_SHORT_READ;
}

int64_t disk_total()
{
    int64_t t = 0;
    for (auto& kv : g_disk.files)
        t += (int64_t)kv.second->bytes.size();
    return t;
}

int xWrite(sqlite3_file* file, const void* buf, int amt, sqlite3_int64 ofs)
{
    SimFile* f = sf(file);
    if (int rc = lib_fault(f, VM_WRITE))
        return rc;
    auto& b = fd_of(file)->bytes;
    int64_t need = ofs + amt;
    if (need > (int64_t)b.size())
    {
        if (g_disk.quota_bytes >= 0 && !f->harness_owned &&
            disk_total() + (need - (int64_t)b.size()) > g_disk.quota_bytes)
            return SQLITE_FULL;
        b.resize((size_t)need, 0);
    }
    memcpy(b.data() + ofs, buf, amt);
    if (!f->harness_owned && classify_role(*f->path) != FR_TEMP)
        g_disk.lib_writes++;
    return SQLITE_OK;
}

int xTruncate(sqlite3_file* file, sqlite3_int64 size)
{
    SimFile* f = sf(file);
    if (int rc = lib_fault(f, VM_TRUNCATE))
        return rc;
    auto& b = fd_of(file)->bytes;
    b.resize((size_t)size, 0);
    if (!f->harness_owned && classify_role(*f->path) != FR_TEMP)
        g_disk.lib_truncates++;
    return SQLITE_OK;
}

int xSync(sqlite3_file* file, int)
{
    SimFile* f = sf(file);
    if (int rc = lib_fault(f, VM_SYNC))
        return rc;
    if (!f->harness_owned)
        g_disk.lib_syncs++;
    return SQLITE_OK;
}

int xFileSize(sqlite3_file* file, sqlite3_int64* out)
{
    SimFile* f = sf(file);
    if (int rc = lib_fault(f, VM_FILESIZE))
        return rc;
    *out = (sqlite3_int64)fd_of(file)->bytes.size();
    return SQLITE_OK;
}

int xLock(sqlite3_file* file, int level)
{
    SimFile* f = sf(file);
    if (int rc = lib_fault(f, VM_LOCK))
        return rc;
    auto& fd = fd_of(file);
    if (f->lock_level >= level)
        return SQLITE_OK;
    auto other = [&](const void* p) { return p && p != f; };
    if (level == SQLITE_LOCK_SHARED)
    {
        if (other(fd->pending_by) || other(fd->exclusive_by))
            return SQLITE_BUSY;
        fd->n_shared++;
        f->lock_level = SQLITE_LOCK_SHARED;
        return SQLITE_OK;
    }
    if (level == SQLITE_LOCK_RESERVED)
    {
        if (other(fd->reserved_by) || other(fd->pending_by) ||
            other(fd->exclusive_by))
            return SQLITE_BUSY;
        fd->reserved_by = f;
        f->lock_level = SQLITE_LOCK_RESERVED;
        return SQLITE_OK;
    }
    // EXCLUSIVE (via PENDING)
    if (other(fd->reserved_by) || other(fd->pending_by) ||
        other(fd->exclusive_by))
        return SQLITE_BUSY;
    fd->pending_by = f;
    if (f->lock_level < SQLITE_LOCK_PENDING)
        f->lock_level = SQLITE_LOCK_PENDING;
    if (fd->n_shared > 1)
        return SQLITE_BUSY;
    fd->exclusive_by = f;
    f->lock_level = SQLITE_LOCK_EXCLUSIVE;
    return SQLITE_OK;
}

int xUnlock(sqlite3_file* file, int level)
{
    SimFile* f = sf(file);
    int frc = lib_fault(f, VM_UNLOCK);
    auto& fd = fd_of(file);
    if (f->lock_level <= level)
        return frc;
    if (f->lock_level > SQLITE_LOCK_SHARED)
    {
        if (fd->reserved_by == f)
            fd->reserved_by = nullptr;
        if (fd->pending_by == f)
            fd->pending_by = nullptr;
        if (fd->exclusive_by == f)
            fd->exclusive_by = nullptr;
    }
    if (level == SQLITE_LOCK_NONE && f->lock_level >= SQLITE_LOCK_SHARED)
        fd->n_shared--;
    f->lock_level = level;
    return frc;
}

int xCheckReservedLock(sqlite3_file* file, int* out)
{
    auto& fd = fd_of(file);
    *out = (fd->reserved_by || fd->pending_by || fd->exclusive_by) ? 1 : 0;
    return SQLITE_OK;
}

int xFileControl(sqlite3_file*, int, void*) { return SQLITE_NOTFOUND; }
int xSectorSize(sqlite3_file*) { return g_disk.sector_size; }
int xDeviceCharacteristics(sqlite3_file*) { return g_disk.device_chars; }

const sqlite3_io_methods kIo = {1,
                                xClose,
                                xRead,
                                xWrite,
                                xTruncate,
                                xSync,
                                xFileSize,
                                xLock,
                                xUnlock,
                                xCheckReservedLock,
                                xFileControl,
                                xSectorSize,
                                xDeviceCharacteristics,
                                nullptr,
                                nullptr,
                                nullptr,
                                nullptr,
                                nullptr,
                                nullptr};

uint64_t g_temp_counter = 0;

int vOpen(sqlite3_vfs*, const char* zName, sqlite3_file* file, int flags,
          int* outFlags)
{
    SimFile* f = sf(file);
    f->base.pMethods = nullptr;
    std::string path;
    bool temp = (zName == nullptr);
    if (temp)
    {
        path = std::string(kRoot) + "/.tmp-" + std::to_string(g_temp_counter++);
    }
    else
    {
        path = norm_path(zName);
        if (!is_sim_path(path.c_str()))
            return SQLITE_CANTOPEN;
    }
    bool harness = in_harness();
    if (!harness)
    {
        g_disk.lib_opens++;
        if (int rc = g_disk.on_call(VM_OPEN, temp ? std::string() : path))
            return rc;
    }
    std::shared_ptr<FileData> fd;
    auto it = g_disk.files.find(path);
    if (it != g_disk.files.end())
    {
        if ((flags & SQLITE_OPEN_EXCLUSIVE) && (flags & SQLITE_OPEN_CREATE))
            return SQLITE_CANTOPEN;
        fd = it->second;
    }
    else
    {
        if (!(flags & SQLITE_OPEN_CREATE))
            return SQLITE_CANTOPEN;
        if (!temp && !g_disk.exists_dir(parent_of(path)))
            return SQLITE_CANTOPEN;
        if (g_disk.exists_dir(path))
            return SQLITE_CANTOPEN;
        fd = std::make_shared<FileData>();
        g_disk.files[path] = fd;
    }
    fd->open_count++;
    f->data = new std::shared_ptr<FileData>(fd);
    f->path = new std::string(temp ? std::string() : path);
    if (temp)
    {
        // keep the temp file addressable for DELETEONCLOSE
        *f->path = path;
        flags |= SQLITE_OPEN_DELETEONCLOSE;
    }
    f->lock_level = SQLITE_LOCK_NONE;
    f->flags = flags;
    f->harness_owned = harness;
    if (outFlags)
        *outFlags = flags;
    f->base.pMethods = &kIo;
    return SQLITE_OK;
}

int vDelete(sqlite3_vfs*, const char* zName, int)
{
    std::string path = norm_path(zName);
    if (!in_harness())
    {
        if (int rc = g_disk.on_call(VM_DELETE, path))
            return rc;
    }
    auto it = g_disk.files.find(path);
    if (it == g_disk.files.end())
        return SQLITE_IOERR_DELETE_NOENT;
    g_disk.files.erase(it);
    if (!in_harness())
        g_disk.lib_deletes++;
    return SQLITE_OK;
}

int vAccess(sqlite3_vfs*, const char* zName, int, int* out)
{
    std::string path = norm_path(zName);
    if (!in_harness())
    {
        if (int rc = g_disk.on_call(VM_ACCESS, path))
            return rc;
    }
    *out = (g_disk.exists_file(path) || g_disk.exists_dir(path)) ? 1 : 0;
    return SQLITE_OK;
}

int vFullPathname(sqlite3_vfs*, const char* zName, int nOut, char* zOut)
{
    std::string p = norm_path(zName);
    if ((int)p.size() + 1 > nOut)
        return SQLITE_CANTOPEN;
    memcpy(zOut, p.c_str(), p.size() + 1);
    return SQLITE_OK;
}

int vRandomness(sqlite3_vfs*, int n, char* out)
{
    for (int i = 0; i < n; ++i)
        out[i] = (char)(g_vfs_rng.next() & 0xff);
    return n;
}
int vSleep(sqlite3_vfs*, int us) { return us; }
int vCurrentTimeInt64(sqlite3_vfs*, sqlite3_int64* out)
{
    ++g_clock_reads;
    *out = (sqlite3_int64)g_sim_clock * 1000 + 210866760000000LL;
    return SQLITE_OK;
}
int vCurrentTime(sqlite3_vfs* v, double* out)
{
    sqlite3_int64 t;
    vCurrentTimeInt64(v, &t);
    *out = t / 86400000.0;
    return SQLITE_OK;
}
int vGetLastError(sqlite3_vfs*, int, char*) { return 0; }

sqlite3_vfs g_vfs = {2,
                     (int)sizeof(SimFile),
                     1024,
                     nullptr,
                     "djsim",
                     nullptr,
                     vOpen,
                     vDelete,
                     vAccess,
                     vFullPathname,
                     nullptr,
                     nullptr,
                     nullptr,
                     nullptr,
                     vRandomness,
                     vSleep,
                     vCurrentTime,
                     vGetLastError,
                     vCurrentTimeInt64,
                     nullptr,
                     nullptr,
                     nullptr};
bool g_registered = false;
}  // namespace

void simdisk_register()
{
    if (g_registered)
        return;
    g_registered = true;
    g_disk.reset();
    sqlite3_vfs_register(&g_vfs, 1);
}

void simdisk_reseed(uint64_t seed) { g_vfs_rng.reseed(seed); }

}  // namespace djsim

// ------------------------------------------------------- stat / mkdir wraps
extern "C" {
int __real_stat(const char* path, struct stat* buf);
int __real_mkdir(const char* path, mode_t mode);

int __wrap_stat(const char* path, struct stat* buf)
{
    using namespace djsim;
    if (!is_sim_path(path))
        return __real_stat(path, buf);
    std::string p = norm_path(path);
    memset(buf, 0, sizeof *buf);
    if (g_disk.exists_dir(p))
    {
        buf->st_mode = S_IFDIR | 0755;
        return 0;
    }
    auto it = g_disk.files.find(p);
    if (it != g_disk.files.end())
    {
        buf->st_mode = S_IFREG | 0644;
        buf->st_size = (off_t)it->second->bytes.size();
        return 0;
    }
    errno = ENOENT;
    return -1;
}

int __wrap_mkdir(const char* path, mode_t mode)
{
    using namespace djsim;
    if (!is_sim_path(path))
        return __real_mkdir(path, mode);
    std::string p = norm_path(path);
    if (g_disk.exists_dir(p) || g_disk.exists_file(p))
    {
        errno = EEXIST;
        return -1;
    }
    auto pos = p.rfind('/');
    std::string parent = pos == 0 ? "/" : p.substr(0, pos);
    if (!g_disk.exists_dir(parent))
    {
        errno = ENOENT;
        return -1;
    }
    g_disk.dirs.insert(p);
    return 0;
}
}
