// refcodec: an independent implementation of the Engine performance-data
// blob layouts, written from the format description (field order, widths,
// endianness, 4-byte big-endian length + zlib stream, uncompressed loops).
// It calls no libdjinterop code and uses zlib's one-shot compress2/uncompress.
#pragma once
#include <array>
#include <cstdint>
#include <string>
#include <vector>

namespace ref
{
using Bytes = std::vector<uint8_t>;

// ---- framing
Bytes zwrap(const Bytes& payload, int level = 6);
// strict: the prefix must equal the inflated length and the remainder must be
// exactly one complete zlib stream.  An empty blob or a zero prefix = no data.
bool zunwrap(const Bytes& blob, Bytes& payload, std::string& err);

// ---- logical values
struct Marker
{
    double offset = 0;
    int64_t beat = 0;
    int32_t beats_to_next = 0;
    int32_t unknown = 0;
};
struct BeatData
{
    double sample_rate = 0, samples = 0;
    uint8_t is_set = 0;
    std::vector<Marker> def, adj;
    Bytes extra;
};
struct Cue
{
    std::string label;
    double offset = -1;
    uint8_t a = 0, r = 0, g = 0, b = 0;
};
struct QuickCues
{
    std::vector<Cue> cues;
    double adj_main = 0;
    uint8_t is_adj = 0;
    double def_main = 0;
    Bytes extra;
};
struct Loop
{
    std::string label;
    double start = -1, end = -1;
    uint8_t start_set = 0, end_set = 0;
    uint8_t a = 0, r = 0, g = 0, b = 0;
};
struct Loops
{
    std::vector<Loop> loops;
    Bytes extra;
};
struct Overview
{
    int64_t n1 = 0, n2 = 0;
    double samples_per_point = 0;
    std::vector<std::array<uint8_t, 3>> pts;
    std::array<uint8_t, 3> max{};
    Bytes extra;
};
struct HighRes
{
    int64_t n1 = 0, n2 = 0;
    double samples_per_entry = 0;
    std::vector<std::array<uint8_t, 6>> pts;  // lo mid hi values, lo mid hi opacities
    std::array<uint8_t, 6> max{};
};
struct TrackData2
{
    double sample_rate = 0;
    int64_t samples = 0;
    int32_t key = 0;
    double loud_low = 0, loud_mid = 0, loud_high = 0;
    Bytes extra;
};
struct TrackData1
{
    double sample_rate = 0;
    int64_t samples = 0;
    double loudness = 0;
    int32_t key = 0;
};

// ---- payload codecs (uncompressed layouts).  decode returns false + err on
// any structural problem; `trailing` receives bytes after the last field.
Bytes enc_beat(const BeatData& v);
bool dec_beat(const Bytes& p, BeatData& v, std::string& err);
Bytes enc_cues(const QuickCues& v);
bool dec_cues(const Bytes& p, QuickCues& v, std::string& err);
Bytes enc_loops(const Loops& v);
bool dec_loops(const Bytes& p, Loops& v, std::string& err);
Bytes enc_overview(const Overview& v);
bool dec_overview(const Bytes& p, Overview& v, std::string& err);
Bytes enc_highres(const HighRes& v);
bool dec_highres(const Bytes& p, HighRes& v, std::string& err);
Bytes enc_track2(const TrackData2& v);
bool dec_track2(const Bytes& p, TrackData2& v, std::string& err);
Bytes enc_track1(const TrackData1& v);
bool dec_track1(const Bytes& p, TrackData1& v, std::string& err);

}  // namespace ref
