// State of actor T (schema-2.x table API on the library's own connection).
#pragma once
#include <djinterop/engine/v2/engine_library.hpp>

#include <map>
#include <optional>
#include <string>
#include <vector>

#include "world.hpp"

namespace djsim
{
namespace v2 = djinterop::engine::v2;

struct World::TState
{
    std::optional<v2::engine_library> lib;
    std::map<int64_t, v2::track_row> rows;
    struct PL
    {
        std::string title;
        int64_t parent = 0;
        bool persisted = true, exported = true;
        std::chrono::system_clock::time_point edited{};
    };
    std::map<int64_t, PL> lists;
    std::map<int64_t, std::vector<int64_t>> order;  // parent -> ordered children
    std::map<int64_t, std::vector<int64_t>> ents;   // list -> ordered track ids
    struct Ent
    {
        int64_t id = 0, mref = 0;
    };
    std::map<std::pair<int64_t, int64_t>, Ent> entrow;  // (list, track) -> entity row as written
    int range = 0;  // 0: 2.18.0, 1: 2.20.1-2.20.2, 2: >= 2.20.3
    std::string uuid;
    uint64_t rowuniq = 0;
    std::optional<v2::information_row> info;  // the Information row as last written (model)
};

}  // namespace djsim
