// djsim CLI: sweep | serve | gen | exec | smoke
#include <malloc.h>
#include <unistd.h>

#include <csignal>
#include <cstdio>
#include <cstring>
#include <fstream>
#include <iostream>
#include <sstream>

#include "world.hpp"

using namespace djsim;

extern "C" __attribute__((used)) const char* __asan_default_options()
{
    return "exitcode=77:detect_leaks=0:abort_on_error=0:allocator_may_return_null=1:"
           "handle_abort=1:detect_stack_use_after_return=0";
}
extern "C" __attribute__((used)) const char* __ubsan_default_options()
{
    return "print_stacktrace=1:halt_on_error=1:exitcode=77";
}

namespace djsim
{
Json World::result_json() const
{
    Json j = Json::object();
    j.set("steps", steps_executed);
    j.set("stopped", stop);
    if (stop)
        j.set("stop_reason", stop_reason);
    Json vs = Json::array();
    for (auto& v : viols)
        vs.push(v.to_json());
    j.set("viols", vs);
    j.set("loghash", hex64(log.value()));
    j.set("gatehash", hex64(gate_log.value()));
    Json st = Json::array();
    for (auto h : state_hashes)
        st.push(hex64(h));
    j.set("states", st);
    Json pr = Json::object();
    for (auto& kv : probes.n)
        pr.set(kv.first, (long long)kv.second);
    j.set("probes", pr);
    Json ops = Json::object();
    for (auto& kv : op_counts)
        ops.set(kv.first, (long long)kv.second);
    j.set("ops", ops);
    Json ff = Json::object();
    for (auto& kv : fault_fired)
        ff.set(kv.first, (long long)kv.second);
    j.set("faults", ff);
    j.set("stmts", (long long)g_taps.total_stmts);
    j.set("ticks", (long long)g_taps.total_ticks);
    j.set("vfs_calls", (long long)g_disk.lib_calls);
    j.set("clock_reads", (long long)g_clock_reads);
    j.set("sim_clock", (long long)g_sim_clock);
    j.set("sim_span", (long long)(g_sim_clock >= clock0 ? g_sim_clock - clock0 : clock0 - g_sim_clock));
    if (!derived.empty())
    {
        Json d = Json::object();
        for (auto& kv : derived)
            d.set(kv.first, kv.second);
        j.set("derived", d);
    }
    if (have_enumeration)
        j.set("enumeration", enumeration);
    if (tracing)
    {
        Json tr = Json::array();
        for (auto& t : trace)
            tr.push(t);
        j.set("trace", tr);
    }
    return j;
}
}  // namespace djsim

static volatile sig_atomic_t g_alarm_step = -1;
static void on_alarm(int)
{
    const char msg[] = "\nWATCHDOG wall-clock alarm fired\n";
    ssize_t r = write(1, msg, sizeof msg - 1);
    (void)r;
    _exit(78);
}

// Fill freshly allocated heap blocks and a large part of the stack with a
// pattern, so that a read of indeterminate memory gives a value that depends
// on the pattern (and on nothing else).
static void __attribute__((noinline)) poison_stack(int v)
{
    volatile char buf[512 * 1024];
    for (size_t i = 0; i < sizeof buf; i += 1)
        buf[i] = (char)v;
}
static void poison(int v)
{
    mallopt(M_PERTURB, v);
    poison_stack(v);
}

static Json run_plan(const Plan& p, bool trace)
{
    alarm(60);
    Json res;
    std::string first_hash;
    if (p.cfg.twice)
    {
        poison(0x5A);
        World w(p);
        w.run();
        first_hash = hex64(w.log.value());
        poison(0xA5);
    }
    {
        World w(p);
        w.tracing = trace;
        w.run();
        if (p.cfg.twice)
        {
            w.probes.hit("executed_twice");
            if (hex64(w.log.value()) != first_hash)
                w.report("C15", "C15|twice|" + w.fam() + "|indeterminate-memory",
                         "two executions of the same plan over differently poisoned heap and stack memory stored or returned different "
                         "bytes: the library read indeterminate (uninitialised) memory");
        }
        res = w.result_json();
        if (g_taps.lib_conns.size() != 0)
            res.set("leaked_conns", (long long)g_taps.lib_conns.size());
    }
    if (p.cfg.twice)
        mallopt(M_PERTURB, 0);
    alarm(0);
    res.set("digest", hex64(p.digest()));
    return res;
}

static uint64_t run_seed(uint64_t base, const std::string& profile, uint64_t i)
{
    return mix3(base, hash_str(profile), i);
}

static int cmd_sweep(int argc, char** argv)
{
    std::string profile = "mixed";
    uint64_t seed = 1, start = 0, count = 100, stride = 1;
    bool plans = false;
    for (int i = 2; i < argc; ++i)
    {
        std::string a = argv[i];
        auto next = [&] { return std::string(i + 1 < argc ? argv[++i] : ""); };
        if (a == "--profile")
            profile = next();
        else if (a == "--seed")
            seed = strtoull(next().c_str(), nullptr, 10);
        else if (a == "--start")
            start = strtoull(next().c_str(), nullptr, 10);
        else if (a == "--count")
            count = strtoull(next().c_str(), nullptr, 10);
        else if (a == "--stride")
            stride = strtoull(next().c_str(), nullptr, 10);
        else if (a == "--plans")
            plans = true;
    }
    for (uint64_t k = 0; k < count; ++k)
    {
        uint64_t i = start + k * stride;
        printf("BEGIN %llu\n", (unsigned long long)i);
        fflush(stdout);
        Plan p = generate_plan(profile, run_seed(seed, profile, i), i);
        Json res = run_plan(p, false);
        res.set("run", (long long)i);
        res.set("profile", profile);
        bool bad = !res.at("viols").a.empty();
        if (bad || plans)
            res.set("plan", p.to_json());
        printf("RESULT %s\n", res.str().c_str());
        fflush(stdout);
    }
    printf("DONE\n");
    fflush(stdout);
    return 0;
}

static int cmd_serve()
{
    std::string line;
    while (std::getline(std::cin, line))
    {
        if (line.empty())
            continue;
        try
        {
            Json req = Json::parse(line);
            Plan p = Plan::from_json(req.at("plan"));
            bool trace = req.getb("trace", false);
            printf("BEGIN 0\n");
            fflush(stdout);
            Json res = run_plan(p, trace);
            printf("RESULT %s\n", res.str().c_str());
        }
        catch (const std::exception& e)
        {
            Json err = Json::object();
            err.set("error", e.what());
            printf("RESULT %s\n", err.str().c_str());
        }
        fflush(stdout);
    }
    return 0;
}

static int cmd_gen(int argc, char** argv)
{
    std::string profile = "mixed";
    uint64_t seed = 1, run = 0;
    for (int i = 2; i < argc; ++i)
    {
        std::string a = argv[i];
        auto next = [&] { return std::string(i + 1 < argc ? argv[++i] : ""); };
        if (a == "--profile")
            profile = next();
        else if (a == "--seed")
            seed = strtoull(next().c_str(), nullptr, 10);
        else if (a == "--run")
            run = strtoull(next().c_str(), nullptr, 10);
    }
    Plan p = generate_plan(profile, run_seed(seed, profile, run), run);
    printf("%s\n", p.to_json().str().c_str());
    return 0;
}

static int cmd_exec(int argc, char** argv)
{
    std::string file;
    bool trace = false;
    for (int i = 2; i < argc; ++i)
    {
        std::string a = argv[i];
        if (a == "--plan" && i + 1 < argc)
            file = argv[++i];
        else if (a == "--trace")
            trace = true;
    }
    std::ifstream in(file);
    std::stringstream ss;
    ss << in.rdbuf();
    Json j = Json::parse(ss.str());
    const Json& pj = j.has("plan") ? j.at("plan") : j;
    // a violation that depends on what the same PROCESS executed before (state the library keeps outside its
    // handles) is replayed as a history: the earlier plans run first, in order, in this process
    if (j.has("history"))
        for (auto& h : j.at("history").a)
        {
            Plan hp = Plan::from_json(h);
            (void)run_plan(hp, false);
        }
    Plan p = Plan::from_json(pj);
    Json res = run_plan(p, trace);
    if (trace && res.has("trace"))
        for (auto& t : res.at("trace").a)
            fprintf(stderr, "%s\n", t.s.c_str());
    printf("RESULT %s\n", res.str().c_str());
    return res.at("viols").a.empty() ? 0 : 1;
}

int main(int argc, char** argv)
{
    signal(SIGALRM, on_alarm);
    taps_install();
    if (argc < 2)
    {
        fprintf(stderr, "usage: djsim sweep|serve|gen|exec ...\n");
        return 2;
    }
    std::string cmd = argv[1];
    try
    {
        if (cmd == "sweep")
            return cmd_sweep(argc, argv);
        if (cmd == "serve")
            return cmd_serve();
        if (cmd == "gen")
            return cmd_gen(argc, argv);
        if (cmd == "exec")
            return cmd_exec(argc, argv);
    }
    catch (const std::exception& e)
    {
        fprintf(stderr, "djsim: fatal: %s\n", e.what());
        return 3;
    }
    fprintf(stderr, "unknown command %s\n", cmd.c_str());
    return 2;
}
