// Plan (de)serialisation, world lifecycle and the step executor (actor L and X).
#include "world.hpp"

#include <sqlite3.h>
#include <unistd.h>

#include <algorithm>

namespace djsim
{
// ------------------------------------------------------------------ JSON
Json FaultSpec::to_json() const
{
    Json j = Json::object();
    static const char* kn[] = {"none", "F1", "F2", "F3", "F4", "F9"};
    j.set("kind", kn[kind]);
    j.set("pos", (long long)pos);
    j.set("code", code);
    if (kind == FK_VFS)
    {
        j.set("method", vfs_method_name(method));
        j.set("role", file_role_name(role));
        if (persist)
            j.set("persist", persist);
    }
    if (kind == FK_LOCK)
        j.set("role", file_role_name(role));
    return j;
}
FaultSpec FaultSpec::from_json(const Json& j)
{
    FaultSpec f;
    std::string k = j.gets("kind", "none");
    f.kind = k == "F1" ? FK_STMT : k == "F2" ? FK_TICK : k == "F3" ? FK_VFS : k == "F4" ? FK_MALLOC : k == "F9" ? FK_LOCK : FK_NONE;
    f.pos = j.geti("pos");
    f.code = (int)j.geti("code");
    if (f.kind == FK_LOCK)
        f.role = file_role_from_name(j.gets("role", "m.db"));
    if (f.kind == FK_VFS)
    {
        f.method = vfs_method_from_name(j.gets("method"));
        f.role = file_role_from_name(j.gets("role"));
        f.persist = (int)j.geti("persist", 0);
        if (f.method < 0 || f.role < 0)
            throw std::runtime_error("bad F3 fault in plan");
    }
    return f;
}

Json Step::to_json() const
{
    Json j = Json::object();
    j.set("op", op);
    if (!a.empty())
    {
        Json arr = Json::array();
        for (auto x : a)
            arr.push((long long)x);
        j.set("a", arr);
    }
    if (vseed)
        j.set("vseed", std::to_string(vseed));
    j.set("size", size);
    if (fault.kind != FK_NONE)
        j.set("fault", fault.to_json());
    if (!pre.empty())
    {
        Json arr = Json::array();
        for (auto& f : pre)
            arr.push(f.to_json());
        j.set("pre", arr);
    }
    return j;
}
Step Step::from_json(const Json& j)
{
    Step s;
    s.op = j.gets("op");
    if (auto* a = j.find("a"))
        for (auto& x : a->a)
            s.a.push_back(x.i);
    std::string vs = j.gets("vseed", "0");
    s.vseed = strtoull(vs.c_str(), nullptr, 10);
    s.size = (int)j.geti("size", 1);
    if (auto* f = j.find("fault"))
        s.fault = FaultSpec::from_json(*f);
    if (auto* p = j.find("pre"))
        for (auto& x : p->a)
            s.pre.push_back(FaultSpec::from_json(x));
    return s;
}

Json Config::to_json() const
{
    Json j = Json::object();
    j.set("schema", eng::to_string(eng::supported_schemas[schema]));
    j.set("schema_index", schema);
    j.set("on_disk", on_disk);
    j.set("cache_pages", cache_pages);
    j.set("sector", sector);
    j.set("checks", (long long)checks);
    j.set("table_api", table_api);
    if (twice)
        j.set("twice", true);
    if (dir_slash)
        j.set("dir_slash", true);
    j.set("profile", profile);
    Json g = Json::object();
    g.set("long_labels", gf.long_labels);
    g.set("empty_labels", gf.empty_labels);
    g.set("many_slots", gf.many_slots);
    g.set("odd_grids", gf.odd_grids);
    g.set("sentinel_offsets", gf.sentinel_offsets);
    g.set("big", gf.big);
    g.set("nul_bytes", gf.nul_bytes);
    g.set("no_path", gf.no_path);
    g.set("nonfinite", gf.nonfinite);
    g.set("rich", gf.rich);
    j.set("gen", g);
    return j;
}
Config Config::from_json(const Json& j)
{
    Config c;
    c.schema = (int)j.geti("schema_index", 17);
    c.on_disk = j.getb("on_disk", true);
    c.cache_pages = (int)j.geti("cache_pages", 0);
    c.sector = (int)j.geti("sector", 4096);
    c.checks = (uint32_t)j.geti("checks", CK_ALL);
    c.table_api = j.getb("table_api", false);
    c.twice = j.getb("twice", false);
    c.dir_slash = j.getb("dir_slash", false);
    c.profile = j.gets("profile");
    if (auto* g = j.find("gen"))
    {
        c.gf.long_labels = g->getb("long_labels", true);
        c.gf.empty_labels = g->getb("empty_labels", true);
        c.gf.many_slots = g->getb("many_slots", false);
        c.gf.odd_grids = g->getb("odd_grids", true);
        c.gf.sentinel_offsets = g->getb("sentinel_offsets", true);
        c.gf.big = g->getb("big", true);
        c.gf.nul_bytes = g->getb("nul_bytes", false);
        c.gf.no_path = g->getb("no_path", true);
        c.gf.nonfinite = g->getb("nonfinite", false);
        c.gf.rich = g->getb("rich", false);
    }
    return c;
}

Json Plan::to_json() const
{
    Json j = Json::object();
    j.set("seed", std::to_string(seed));
    j.set("config", cfg.to_json());
    Json st = Json::array();
    for (auto& s : steps)
        st.push(s.to_json());
    j.set("steps", st);
    return j;
}
Plan Plan::from_json(const Json& j)
{
    Plan p;
    p.seed = strtoull(j.gets("seed", "0").c_str(), nullptr, 10);
    p.cfg = Config::from_json(j.at("config"));
    for (auto& s : j.at("steps").a)
        p.steps.push_back(Step::from_json(s));
    return p;
}

Json Violation::to_json() const
{
    Json j = Json::object();
    j.set("property", prop);
    j.set("key", key);
    j.set("detail", detail);
    j.set("step", step);
    return j;
}

// ------------------------------------------------------------------ model
std::vector<int64_t> Model::children_of(int64_t parent) const
{
    std::vector<int64_t> v;
    for (auto& kv : crates)
        if (kv.second.parent == parent)
            v.push_back(kv.first);
    return v;
}
std::vector<int64_t> Model::descendants_of(int64_t id) const
{
    std::vector<int64_t> out, stack{id};
    std::set<int64_t> seen{id};
    while (!stack.empty())
    {
        auto cur = stack.back();
        stack.pop_back();
        for (auto c : children_of(cur))
        {
            if (!seen.insert(c).second)
                continue;  // defensive: a model that left the forest domain must not hang the harness
            out.push_back(c);
            stack.push_back(c);
        }
    }
    std::sort(out.begin(), out.end());
    return out;
}
bool Model::is_descendant(int64_t maybe_desc, int64_t of) const
{
    auto d = descendants_of(of);
    return std::binary_search(d.begin(), d.end(), maybe_desc);
}
void Model::remove_subtree(int64_t id)
{
    auto d = descendants_of(id);
    d.push_back(id);
    for (auto x : d)
    {
        auto it = crates.find(x);
        if (it == crates.end())
            continue;
        auto& ord = order[it->second.parent];
        ord.erase(std::remove(ord.begin(), ord.end(), x), ord.end());
        crates.erase(it);
        order.erase(x);
        members.erase(x);
        dead_crates.insert(x);
    }
}

// ------------------------------------------------------------------ world
World::World(const Plan& p) : plan(p)
{
    schema = eng::supported_schemas[p.cfg.schema % eng::supported_schemas.size()];
    v2 = schema >= eng::engine_schema::schema_2_18_0;
    family = v2 ? 2 : (schema >= eng::engine_schema::schema_1_15_0 ? 1 : 0);
    dir = std::string(kRoot) + "/lib";
    g_disk.reset();
    g_disk.sector_size = p.cfg.sector;
    taps_reseed(p.seed);
    g_taps.disarm();
    g_taps.begin_call();
    g_taps.total_stmts = g_taps.total_ticks = g_taps.total_mallocs = 0;
    g_sim_clock = 1600000000 + (int64_t)(p.seed % 100000);
    clock0 = g_sim_clock;
    g_clock_reads = 0;
    if (getenv("DJSIM_LOGDUMP") || access("/tmp/DJSIM_LOGDUMP", F_OK) == 0)
        hash_dump_target() = &log;
    log.str("plan");
    log.u64(p.digest());
}

World::~World()
{
    if (hash_dump_target() == &log)
        hash_dump_target() = nullptr;
    foreign_forget();
    contention_release();
    tracks.clear();
    crates.clear();
    db.reset();
}

void World::report(const std::string& prop, const std::string& key,
                   const std::string& detail)
{
    // once a hostile call with undefined model semantics has completed, the
    // reference model no longer describes the library: model-based verdicts stop
    if (model_off && (prop == "C01" || prop == "C06" || prop == "C07" || prop == "C08" || prop == "C09" || prop == "C11"))
        return;
    // one report per class key per run
    for (auto& v : viols)
        if (v.key == key)
            return;
    viols.push_back({prop, key, detail, cur_step});
    gate_log.str("V:" + key);
    log.str("V:" + key);
    if (tracing)
        trace.push_back("  VIOLATION " + key + ": " + detail);
}

void World::note(const std::string& s)
{
    if (tracing)
        trace.push_back(s);
}

int World::pick_live_track(int64_t t) const
{
    std::vector<int> live;
    for (size_t i = 0; i < tracks.size(); ++i)
        if (tracks[i].live && tracks[i].h)
            live.push_back((int)i);
    if (live.empty())
        return -1;
    return live[(size_t)((uint64_t)t % live.size())];
}
int World::pick_live_crate(int64_t t) const
{
    std::vector<int> live;
    for (size_t i = 0; i < crates.size(); ++i)
        if (crates[i].live && crates[i].h)
            live.push_back((int)i);
    if (live.empty())
        return -1;
    return live[(size_t)((uint64_t)t % live.size())];
}
int World::pick_any_track(int64_t t) const
{
    std::vector<int> v;
    for (size_t i = 0; i < tracks.size(); ++i)
        if (tracks[i].h)
            v.push_back((int)i);
    if (v.empty())
        return -1;
    return v[(size_t)((uint64_t)t % v.size())];
}
int World::pick_any_crate(int64_t t) const
{
    std::vector<int> v;
    for (size_t i = 0; i < crates.size(); ++i)
        if (crates[i].h)
            v.push_back((int)i);
    if (v.empty())
        return -1;
    return v[(size_t)((uint64_t)t % v.size())];
}

void World::begin_call(const FaultSpec& f)
{
    g_taps.begin_call();
    if (tracing)
        g_taps.record_sql = true;
    g_disk.begin_api_call();
    g_taps.disarm();
    g_disk.fault = SimDisk::Armed{};
    switch (f.kind)
    {
        case FK_STMT:
            g_taps.f1.armed = true;
            g_taps.f1.fired = false;
            g_taps.f1.ordinal = (int)f.pos;
            g_taps.f1.code = f.code ? f.code : SQLITE_BUSY;
            break;
        case FK_TICK:
            g_taps.f2.armed = true;
            g_taps.f2.fired = false;
            g_taps.f2.tick = (uint64_t)f.pos;
            break;
        case FK_VFS:
            g_disk.fault.armed = true;
            g_disk.fault.method = f.method;
            g_disk.fault.role = f.role;
            g_disk.fault.ordinal = (int)f.pos;
            g_disk.fault.code = f.code ? f.code : SQLITE_IOERR;
            g_disk.fault.persist = f.persist;
            break;
        case FK_MALLOC:
            g_taps.f4.armed = true;
            g_taps.f4.fired = false;
            g_taps.f4.nth = (uint64_t)f.pos;
            break;
        case FK_LOCK:
            contention_prepare(f.role);
            g_taps.f9.armed = true;
            g_taps.f9.fired = g_taps.f9.attempted = false;
            g_taps.f9.ordinal = (int)f.pos;
            break;
        default: break;
    }
}

void World::end_call(Outcome& o)
{
    o.fault_fired = g_taps.f1.fired || g_taps.f2.fired || g_taps.f4.fired || g_taps.f9.fired || g_disk.fault.fired;
    if (g_taps.f9.fired)
        fault_fired["F9"]++;
    if (g_taps.f9.armed || g_taps.f9.attempted)
        contention_release();
    if (g_taps.f1.fired)
        fault_fired["F1"]++;
    if (g_taps.f2.fired)
        fault_fired["F2"]++;
    if (g_disk.fault.fired)
        fault_fired[g_disk.fault.persist ? "F3-persistent" : "F3"]++;
    if (g_disk.fault.refired)
        probes.hit("persistent_fault_refired", g_disk.fault.refired);
    g_disk.quota_bytes = -1;
    if (g_taps.f4.fired)
        fault_fired["F4"]++;
    o.step_errors = g_taps.step_errors;
    if (tracing && (o.fault_fired || o.step_errors))
    {
        std::string t = "    [call: " + std::to_string(g_taps.stmt_count) + " statements, " +
                        std::to_string(g_taps.ticks) + " ticks, step errors " + std::to_string(g_taps.step_errors) +
                        ", last error code " + std::to_string(g_taps.last_error_code) + "]";
        trace.push_back(t);
        for (auto& q : g_taps.sql_log)
            trace.push_back("      sql: " + q.substr(0, 110));
    }
    o.stmts = g_taps.stmt_count;
    o.ticks = g_taps.ticks;
    o.mallocs = g_taps.mallocs;
    if (g_disk.record_calls)
        o.vfs = g_disk.call_log;
    g_taps.f1.fired = g_taps.f2.fired = g_taps.f4.fired = g_taps.f9.fired = g_taps.f9.attempted = false;
    g_taps.disarm();
    g_disk.fault = SimDisk::Armed{};
    if (g_taps.tick_watchdog_fired)
    {
        report(safety_owner(), safety_owner() + "|call|" + fam() + "|sql-watchdog",
               "a single API call exceeded the VM tick budget (non-termination)");
        stop = true;
        stop_reason = "sql watchdog fired";
    }
    if (g_taps.max_alloc > (1ull << 28) && plan.cfg.profile.compare(0, 7, "corrupt") == 0)
        report("C05", "C05|" + fam() + "|absurd-allocation",
               "a single call asked the heap for " + std::to_string(g_taps.max_alloc) +
                   " bytes while reading a stored blob of a few kilobytes (an embedded length was trusted)");
    if (g_taps.inflate_nonterm)
        report("C05", "C05|" + fam() + "|inflate-no-progress",
               "inflate loop made no progress (non-termination)");
    if (o.non_std)
        report(safety_owner(), safety_owner() + "|" + fam() + "|non-std-exception", "call threw something not derived from std::exception");
}

void World::open_library()
{
    if (plan.cfg.table_api && v2)
    {
        open_table_library();
        return;
    }
    Outcome o = call(FaultSpec{}, [&] {
        if (plan.cfg.on_disk)
            db = eng::create_database(api_dir(), schema);
        else
            db = eng::create_temporary_database(schema);
    });
    if (o.threw)
    {
        stop = true;
        stop_reason = "create threw " + o.exc + ": " + o.what;
        report("C10", "C10|create|" + fam() + "|threw", stop_reason);
        return;
    }
    if (plan.cfg.cache_pages > 0)
    {
        HarnessScope hs;
        for (auto* c : g_taps.lib_conns)
        {
            std::string sql = "PRAGMA cache_size=" + std::to_string(plan.cfg.cache_pages);
            sqlite3_exec(c, sql.c_str(), nullptr, nullptr, nullptr);
        }
    }
}

void World::close_all(Rng* order)
{
    // release every handle in a seeded order
    std::vector<std::function<void()>> rel;
    for (auto& t : tracks)
        rel.emplace_back([&t] { t.h.reset(); });
    for (auto& c : crates)
        rel.emplace_back([&c] { c.h.reset(); });
    rel.emplace_back([this] { db.reset(); });
    rel.emplace_back([this] { close_table_library(); });
    if (order)
        for (size_t i = rel.size(); i > 1; --i)
            std::swap(rel[i - 1], rel[order->below(i)]);
    for (auto& f : rel)
        f();
}

bool World::reload()
{
    eng::engine_schema loaded{};
    bool set_marker = false;
    // poison so that "never assigned" is visible
    loaded = static_cast<eng::engine_schema>(12345);
    if (plan.cfg.table_api && v2 && tstate)
    {
        if (!reload_table_library())
            return false;
        loaded = schema;
    }
    Outcome o = (plan.cfg.table_api && v2 && tstate) ? Outcome{} : call(FaultSpec{}, [&] {
        db = eng::load_database(api_dir(), loaded);
        set_marker = true;
    });
    if (o.threw)
    {
        report("C10", "C10|load|" + fam() + "|threw", "load_database threw " + o.exc + ": " + o.what);
        return false;
    }
    if (loaded != schema)
        report("C10", "C10|load|" + fam() + "|loaded_schema",
               "load_database reported schema ordinal " + std::to_string((int)loaded) +
                   " for a library created as " + eng::to_string(schema));
    if (plan.cfg.cache_pages > 0)
    {
        HarnessScope hs;
        for (auto* c : g_taps.lib_conns)
        {
            std::string sql = "PRAGMA cache_size=" + std::to_string(plan.cfg.cache_pages);
            sqlite3_exec(c, sql.c_str(), nullptr, nullptr, nullptr);
        }
    }
    // rebind handles for live entities; stale handles are not carried over
    std::vector<TrackSlot> nt;
    for (auto& s : tracks)
    {
        if (!s.live)
            continue;
        TrackSlot n;
        n.id = s.id;
        n.live = true;
        try
        {
            auto t = db->track_by_id(s.id);
            if (t)
                n.h = *t;
        }
        catch (...)
        {
        }
        nt.push_back(n);
    }
    tracks = nt;
    std::vector<CrateSlot> nc;
    for (auto& s : crates)
    {
        if (!s.live)
            continue;
        CrateSlot n;
        n.id = s.id;
        n.live = true;
        try
        {
            auto c = db->crate_by_id(s.id);
            if (c)
                n.h = *c;
        }
        catch (...)
        {
        }
        nc.push_back(n);
    }
    crates = nc;
    return true;
}

void World::run()
{
    if (plan.cfg.profile.compare(0, 6, "atomic") == 0)
    {
        run_atomic();
        return;
    }
    open_library();
    if (stop)
        return;
    {
        FullObs o = observe();
        if (check(CK_MODEL))
            check_model(o);
        prev = o;
        have_prev = true;
        state_hashes.insert(o.hash());
    }
    for (size_t i = 0; i < plan.steps.size() && !stop; ++i)
    {
        cur_step = (int)i;
        exec_step(plan.steps[i]);
        ++steps_executed;
    }
    cur_step = (int)plan.steps.size();
    if (!stop && plan.cfg.on_disk && check(CK_RELOAD))
    {
        Step s;
        s.op = "reload";
        s.vseed = plan.seed ^ 0xC10;
        exec_step(s);
    }
    Rng r(plan.seed ^ 0xC105E);
    close_all(&r);
    if (g_disk.open_handles() != 0)
        probes.hit("files_left_open_after_close");
    for (auto& f : g_disk.list_files())
    {
        int role = classify_role(f);
        if (role == FR_MDB_JOURNAL || role == FR_PDB_JOURNAL)
            probes.hit("journal_left_after_close");
    }
    if (hash_dump_target() == &log)
        for (auto& kv : g_disk.files)
        {
            Hasher h;
            h.bytes(kv.second->bytes.data(), kv.second->bytes.size());
            fprintf(stderr, "FILE %s %zu %016llx\n", kv.first.c_str(), kv.second->bytes.size(), (unsigned long long)h.value());
            if (getenv("DJSIM_FILEDUMP"))
            {
                std::string out = std::string(getenv("DJSIM_FILEDUMP")) + "_" + std::to_string(hash_str(kv.first) % 1000);
                FILE* f = fopen(out.c_str(), "wb");
                if (f)
                {
                    fwrite(kv.second->bytes.data(), 1, kv.second->bytes.size(), f);
                    fclose(f);
                }
            }
        }
    if (hash_dump_target() == &log)
        for (auto& d : g_disk.dirs)
            fprintf(stderr, "DIR %s\n", d.c_str());
    log.u64(g_disk.image_hash());
}

}  // namespace djsim

// ------------------------------------------------------------------ F9: lock contention by the second party
namespace djsim
{
namespace
{
sqlite3* g_contender = nullptr;
bool contender_lock()
{
    if (!g_contender)
        return false;
    HarnessScope hs;
    return sqlite3_exec(g_contender, "BEGIN IMMEDIATE", nullptr, nullptr, nullptr) == SQLITE_OK;
}
}  // namespace

void World::contention_prepare(int role)
{
    contention_release();
    if (!plan.cfg.on_disk)
        return;
    std::string path = v2 ? dir + "/Database2/m.db" : dir + (role == FR_PDB ? "/p.db" : "/m.db");
    HarnessScope hs;
    if (sqlite3_open_v2(path.c_str(), &g_contender, SQLITE_OPEN_READWRITE, nullptr) != SQLITE_OK)
    {
        if (g_contender)
            sqlite3_close_v2(g_contender);
        g_contender = nullptr;
        return;
    }
    // make the connection read the schema now, so that taking the lock later needs no I/O but the lock itself
    sqlite3_exec(g_contender, "SELECT count(*) FROM sqlite_master", nullptr, nullptr, nullptr);
    g_taps.contention_hook = contender_lock;
}

void World::contention_release()
{
    if (!g_contender)
        return;
    HarnessScope hs;
    sqlite3_exec(g_contender, "ROLLBACK", nullptr, nullptr, nullptr);
    sqlite3_close_v2(g_contender);
    g_contender = nullptr;
}
}  // namespace djsim
