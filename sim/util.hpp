// djsim utilities: PRNG, hashing, minimal JSON. No dependency on the library.
#pragma once
#include <cstdio>
#include <cstdint>
#include <cstring>
#include <map>
#include <memory>
#include <sstream>
#include <stdexcept>
#include <string>
#include <vector>

namespace djsim
{
// ---------------------------------------------------------------- PRNG
inline uint64_t splitmix64(uint64_t& x)
{
    uint64_t z = (x += 0x9E3779B97F4A7C15ull);
    z = (z ^ (z >> 30)) * 0xBF58476D1CE4E5B9ull;
    z = (z ^ (z >> 27)) * 0x94D049BB133111EBull;
    return z ^ (z >> 31);
}

inline uint64_t mix3(uint64_t a, uint64_t b, uint64_t c)
{
    uint64_t s = a;
    uint64_t r = splitmix64(s);
    s = r ^ (b * 0xD6E8FEB86659FD93ull);
    r = splitmix64(s);
    s = r ^ (c * 0xCA5A826395121157ull);
    return splitmix64(s);
}

struct Rng
{
    uint64_t s[4];
    explicit Rng(uint64_t seed = 0) { reseed(seed); }
    void reseed(uint64_t seed)
    {
        uint64_t x = seed;
        for (auto& v : s)
            v = splitmix64(x);
    }
    static uint64_t rotl(uint64_t x, int k) { return (x << k) | (x >> (64 - k)); }
    uint64_t next()
    {
        const uint64_t result = rotl(s[1] * 5, 7) * 9;
        const uint64_t t = s[1] << 17;
        s[2] ^= s[0];
        s[3] ^= s[1];
        s[1] ^= s[2];
        s[0] ^= s[3];
        s[2] ^= t;
        s[3] = rotl(s[3], 45);
        return result;
    }
    // uniform in [0, n)
    uint64_t below(uint64_t n) { return n ? next() % n : 0; }
    int64_t range(int64_t lo, int64_t hi)  // inclusive
    {
        return lo + (int64_t)below((uint64_t)(hi - lo) + 1);
    }
    bool chance(unsigned num, unsigned den) { return below(den) < num; }
    double unit() { return (next() >> 11) * (1.0 / 9007199254740992.0); }
    template <typename T>
    const T& pick(const std::vector<T>& v)
    {
        return v[below(v.size())];
    }
    // weighted choice: returns index
    size_t weighted(const std::vector<unsigned>& w)
    {
        uint64_t tot = 0;
        for (auto x : w)
            tot += x;
        if (!tot)
            return 0;
        uint64_t r = below(tot);
        for (size_t i = 0; i < w.size(); ++i)
        {
            if (r < w[i])
                return i;
            r -= w[i];
        }
        return w.size() - 1;
    }
};

// ---------------------------------------------------------------- hashing
struct Hasher;
inline const Hasher*& hash_dump_target()
{
    static const Hasher* t = nullptr;
    return t;
}

struct Hasher
{
    uint64_t h = 0xcbf29ce484222325ull;
    void bytes(const void* p, size_t n)
    {
        auto* b = static_cast<const unsigned char*>(p);
        for (size_t i = 0; i < n; ++i)
        {
            h ^= b[i];
            h *= 0x100000001b3ull;
        }
    }
    void str(const std::string& s)
    {
        if (hash_dump_target() == this)
            fprintf(stderr, "LOG str %s\n", s.substr(0, 200).c_str());
        uint64_t n = s.size();
        bytes(&n, 8);
        bytes(s.data(), s.size());
    }
    void u64(uint64_t v)
    {
        if (hash_dump_target() == this)
            fprintf(stderr, "LOG u64 %016llx\n", (unsigned long long)v);
        bytes(&v, 8);
    }
    uint64_t value() const
    {
        uint64_t x = h;
        return splitmix64(x);
    }
};

inline uint64_t hash_str(const std::string& s)
{
    Hasher h;
    h.str(s);
    return h.value();
}

inline std::string hex64(uint64_t v)
{
    char buf[20];
    snprintf(buf, sizeof buf, "%016llx", (unsigned long long)v);
    return buf;
}

// ---------------------------------------------------------------- JSON
struct Json;
using JsonPtr = std::shared_ptr<Json>;

struct Json
{
    enum Kind
    {
        Null,
        Bool,
        Int,
        Dbl,
        Str,
        Arr,
        Obj
    } kind = Null;
    bool b = false;
    int64_t i = 0;
    double d = 0;
    std::string s;
    std::vector<Json> a;
    std::vector<std::pair<std::string, Json>> o;  // insertion ordered

    Json() = default;
    Json(bool v) : kind(Bool), b(v) {}
    Json(int v) : kind(Int), i(v) {}
    Json(unsigned v) : kind(Int), i(v) {}
    Json(long v) : kind(Int), i(v) {}
    Json(long long v) : kind(Int), i(v) {}
    Json(unsigned long v) : kind(Int), i((int64_t)v) {}
    Json(unsigned long long v) : kind(Int), i((int64_t)v) {}
    Json(double v) : kind(Dbl), d(v) {}
    Json(const char* v) : kind(Str), s(v) {}
    Json(const std::string& v) : kind(Str), s(v) {}
    static Json array()
    {
        Json j;
        j.kind = Arr;
        return j;
    }
    static Json object()
    {
        Json j;
        j.kind = Obj;
        return j;
    }
    Json& set(const std::string& k, Json v)
    {
        kind = Obj;
        for (auto& kv : o)
            if (kv.first == k)
            {
                kv.second = std::move(v);
                return *this;
            }
        o.emplace_back(k, std::move(v));
        return *this;
    }
    Json& push(Json v)
    {
        kind = Arr;
        a.push_back(std::move(v));
        return *this;
    }
    const Json* find(const std::string& k) const
    {
        for (auto& kv : o)
            if (kv.first == k)
                return &kv.second;
        return nullptr;
    }
    bool has(const std::string& k) const { return find(k) != nullptr; }
    const Json& at(const std::string& k) const
    {
        auto* p = find(k);
        if (!p)
            throw std::runtime_error("json: missing key " + k);
        return *p;
    }
    int64_t geti(const std::string& k, int64_t def = 0) const
    {
        auto* p = find(k);
        if (!p)
            return def;
        if (p->kind == Int)
            return p->i;
        if (p->kind == Dbl)
            return (int64_t)p->d;
        if (p->kind == Bool)
            return p->b;
        return def;
    }
    std::string gets(const std::string& k, const std::string& def = "") const
    {
        auto* p = find(k);
        return (p && p->kind == Str) ? p->s : def;
    }
    bool getb(const std::string& k, bool def = false) const
    {
        auto* p = find(k);
        if (!p)
            return def;
        if (p->kind == Bool)
            return p->b;
        if (p->kind == Int)
            return p->i != 0;
        return def;
    }

    static void esc(std::string& out, const std::string& s)
    {
        out += '"';
        for (unsigned char c : s)
        {
            switch (c)
            {
                case '"': out += "\\\""; break;
                case '\\': out += "\\\\"; break;
                case '\n': out += "\\n"; break;
                case '\r': out += "\\r"; break;
                case '\t': out += "\\t"; break;
                default:
                    if (c < 0x20 || c >= 0x7f)
                    {
                        char buf[8];
                        snprintf(buf, sizeof buf, "\\u%04x", c);
                        out += buf;  // bytes >= 0x80 are written as latin-1
                                     // escapes; only used for diagnostics
                    }
                    else
                        out += (char)c;
            }
        }
        out += '"';
    }
    void dump(std::string& out) const
    {
        switch (kind)
        {
            case Null: out += "null"; break;
            case Bool: out += b ? "true" : "false"; break;
            case Int: out += std::to_string(i); break;
            case Dbl:
            {
                char buf[40];
                snprintf(buf, sizeof buf, "%.17g", d);
                std::string t = buf;
                if (t.find_first_of(".eEni") == std::string::npos)
                    t += ".0";
                if (t.find("inf") != std::string::npos ||
                    t.find("nan") != std::string::npos)
                    t = "null";
                out += t;
                break;
            }
            case Str: esc(out, s); break;
            case Arr:
                out += '[';
                for (size_t k = 0; k < a.size(); ++k)
                {
                    if (k)
                        out += ',';
                    a[k].dump(out);
                }
                out += ']';
                break;
            case Obj:
                out += '{';
                for (size_t k = 0; k < o.size(); ++k)
                {
                    if (k)
                        out += ',';
                    esc(out, o[k].first);
                    out += ':';
                    o[k].second.dump(out);
                }
                out += '}';
                break;
        }
    }
    std::string str() const
    {
        std::string out;
        dump(out);
        return out;
    }

    // ---- parser
    struct P
    {
        const char* p;
        const char* e;
        void ws()
        {
            while (p < e && (*p == ' ' || *p == '\n' || *p == '\t' || *p == '\r'))
                ++p;
        }
        [[noreturn]] void fail(const char* m)
        {
            throw std::runtime_error(std::string("json parse: ") + m);
        }
        Json val()
        {
            ws();
            if (p >= e)
                fail("eof");
            char c = *p;
            if (c == '{')
            {
                ++p;
                Json j = Json::object();
                ws();
                if (p < e && *p == '}')
                {
                    ++p;
                    return j;
                }
                for (;;)
                {
                    ws();
                    Json k = val();
                    if (k.kind != Str)
                        fail("key");
                    ws();
                    if (p >= e || *p != ':')
                        fail("colon");
                    ++p;
                    Json v = val();
                    j.o.emplace_back(k.s, std::move(v));
                    ws();
                    if (p < e && *p == ',')
                    {
                        ++p;
                        continue;
                    }
                    if (p < e && *p == '}')
                    {
                        ++p;
                        return j;
                    }
                    fail("obj");
                }
            }
            if (c == '[')
            {
                ++p;
                Json j = Json::array();
                ws();
                if (p < e && *p == ']')
                {
                    ++p;
                    return j;
                }
                for (;;)
                {
                    j.a.push_back(val());
                    ws();
                    if (p < e && *p == ',')
                    {
                        ++p;
                        continue;
                    }
                    if (p < e && *p == ']')
                    {
                        ++p;
                        return j;
                    }
                    fail("arr");
                }
            }
            if (c == '"')
            {
                ++p;
                Json j;
                j.kind = Str;
                while (p < e && *p != '"')
                {
                    if (*p == '\\')
                    {
                        ++p;
                        if (p >= e)
                            fail("esc");
                        switch (*p)
                        {
                            case 'n': j.s += '\n'; break;
                            case 'r': j.s += '\r'; break;
                            case 't': j.s += '\t'; break;
                            case 'b': j.s += '\b'; break;
                            case 'f': j.s += '\f'; break;
                            case 'u':
                            {
                                if (e - p < 5)
                                    fail("u");
                                unsigned v = 0;
                                for (int k = 1; k <= 4; ++k)
                                {
                                    char h = p[k];
                                    v <<= 4;
                                    if (h >= '0' && h <= '9')
                                        v |= h - '0';
                                    else if (h >= 'a' && h <= 'f')
                                        v |= h - 'a' + 10;
                                    else if (h >= 'A' && h <= 'F')
                                        v |= h - 'A' + 10;
                                    else
                                        fail("hex");
                                }
                                p += 4;
                                if (v < 0x100)
                                    j.s += (char)v;  // latin-1 round trip
                                else if (v < 0x800)
                                {
                                    j.s += (char)(0xC0 | (v >> 6));
                                    j.s += (char)(0x80 | (v & 0x3F));
                                }
                                else
                                {
                                    j.s += (char)(0xE0 | (v >> 12));
                                    j.s += (char)(0x80 | ((v >> 6) & 0x3F));
                                    j.s += (char)(0x80 | (v & 0x3F));
                                }
                                break;
                            }
                            default: j.s += *p;
                        }
                        ++p;
                    }
                    else
                        j.s += *p++;
                }
                if (p >= e)
                    fail("str");
                ++p;
                return j;
            }
            if (!strncmp(p, "true", 4) && e - p >= 4)
            {
                p += 4;
                return Json(true);
            }
            if (!strncmp(p, "false", 5) && e - p >= 5)
            {
                p += 5;
                return Json(false);
            }
            if (!strncmp(p, "null", 4) && e - p >= 4)
            {
                p += 4;
                return Json();
            }
            // number
            const char* q = p;
            bool isd = false;
            if (q < e && (*q == '-' || *q == '+'))
                ++q;
            while (q < e && ((*q >= '0' && *q <= '9') || *q == '.' || *q == 'e' ||
                             *q == 'E' || *q == '-' || *q == '+'))
            {
                if (*q == '.' || *q == 'e' || *q == 'E')
                    isd = true;
                ++q;
            }
            if (q == p)
                fail("value");
            std::string t(p, q);
            p = q;
            if (isd)
                return Json(strtod(t.c_str(), nullptr));
            errno = 0;
            long long v = strtoll(t.c_str(), nullptr, 10);
            if (errno)
            {
                // out of int64 range: keep as unsigned reinterpretation
                unsigned long long u = strtoull(t.c_str(), nullptr, 10);
                return Json((long long)u);
            }
            return Json(v);
        }
    };
    static Json parse(const std::string& text)
    {
        P ps{text.data(), text.data() + text.size()};
        Json j = ps.val();
        ps.ws();
        return j;
    }
};

}  // namespace djsim
