// Pure, seeded generators for snapshots, names, cues, grids, waveforms.
#pragma once
#include <cmath>
#include <cstdint>
#include <cstring>
#include <limits>
#include <optional>
#include <string>
#include <vector>

#include <djinterop/djinterop.hpp>

#include "util.hpp"

namespace djsim
{
// Shapes the generator may produce beyond the "nominal" domain.
struct GenFlags
{
    bool long_labels = true;     // labels of 255 / 256 / 300 bytes
    bool empty_labels = true;    // present cue/loop with empty label
    bool many_slots = false;     // more than 8 cue / loop entries
    bool odd_grids = true;       // 1-marker and non-increasing grids
    bool sentinel_offsets = true;  // cue/loop offsets of -1 and 0
    bool big = true;             // > 16 KiB waveforms / long strings
    bool nul_bytes = false;      // strings with embedded NUL / invalid UTF-8
    bool no_path = true;         // occasionally omit relative_path
    bool nonfinite = false;      // NaN / inf doubles
    bool rich = false;           // every analysis field populated (rate, count, grid, cues, loops, waveform)
};

inline double bits_to_double(uint64_t b)
{
    double d;
    memcpy(&d, &b, 8);
    return d;
}
inline uint64_t double_bits(double d)
{
    uint64_t b;
    memcpy(&b, &d, 8);
    return b;
}

inline std::string gen_bytes(Rng& r, size_t n, bool ascii)
{
    std::string s;
    s.reserve(n);
    for (size_t i = 0; i < n; ++i)
        s += ascii ? (char)('a' + r.below(26)) : (char)(1 + r.below(255));
    return s;
}

inline std::string gen_utf8(Rng& r, size_t chars)
{
    static const char* pieces[] = {"é", "ü", "ß", "日", "本", "語", "🎵", "Ω",
                                   "ж", "a",  "Z", " ", "-", "'",  "\"", "%"};
    std::string s;
    for (size_t i = 0; i < chars; ++i)
        s += pieces[r.below(sizeof pieces / sizeof *pieces)];
    return s;
}

inline std::optional<std::string> gen_opt_string(Rng& r, int size,
                                                 const GenFlags& f)
{
    switch (r.below(10))
    {
        case 0: return std::nullopt;
        case 1: return std::string{};
        case 2: return gen_utf8(r, 1 + r.below(12));
        case 3:
            if (size >= 2)
            {
                static const size_t lens[] = {255, 256, 300, 1000};
                return gen_bytes(r, lens[r.below(4)], true);
            }
            return gen_bytes(r, 8, true);
        case 4:
            if (size >= 3 && f.big)
                return gen_bytes(r, 4096 + r.below(30000), true);
            return gen_bytes(r, 3, true);
        case 5:
            if (f.nul_bytes)
            {
                std::string s = gen_bytes(r, 6, true);
                s[r.below(6)] = '\0';
                return s;
            }
            return gen_bytes(r, 5, true);
        default: return gen_bytes(r, 1 + r.below(20), true);
    }
}

inline double gen_double(Rng& r, const GenFlags& f, bool nonneg = false)
{
    double v;
    switch (r.below(12))
    {
        case 0: v = 0.0; break;
        case 1: v = -0.0; break;
        case 2: v = 4.9406564584124654e-324; break;           // denormal
        case 3: v = 1e15; break;
        case 4: v = bits_to_double(0x3FF0000000000000ull | (r.next() & 0xFFFFFFFFFFFFFull)); break;
        case 5: v = 1.0; break;
        case 6: v = -1.0; break;
        case 7: v = (double)r.range(1, 20000000); break;
        case 8: v = r.unit() * 1e7; break;
        case 9:
            if (f.nonfinite)
            {
                static const double nf[] = {std::numeric_limits<double>::infinity(),
                                            -std::numeric_limits<double>::infinity(),
                                            std::numeric_limits<double>::quiet_NaN()};
                v = nf[r.below(3)];
                break;
            }
            v = 123.456;
            break;
        default: v = r.unit() * 200.0 + 0.5; break;
    }
    if (nonneg && v < 0)
        v = -v;
    return v;
}

inline int gen_int(Rng& r)
{
    switch (r.below(10))
    {
        case 0: return 0;
        case 1: return 1;
        case 2: return -1;
        case 3: return std::numeric_limits<int>::max();
        case 4: return std::numeric_limits<int>::min();
        default: return (int)r.range(-5000, 5000);
    }
}

inline djinterop::pad_color gen_color(Rng& r)
{
    // all channels distinct so that a channel swap is visible
    uint8_t c[4];
    for (;;)
    {
        for (auto& x : c)
            x = (uint8_t)r.below(256);
        if (c[0] != c[1] && c[0] != c[2] && c[0] != c[3] && c[1] != c[2] &&
            c[1] != c[3] && c[2] != c[3])
            break;
    }
    return djinterop::pad_color{c[0], c[1], c[2], c[3]};
}

inline std::string gen_label(Rng& r, int size, const GenFlags& f)
{
    switch (r.below(12))
    {
        case 0: return (f.empty_labels && r.chance(1, 6)) ? std::string{} : std::string{"L"};
        case 1: return "x";
        case 2: return size >= 1 && f.long_labels ? gen_bytes(r, 255, true) : "Cue";
        case 3: return size >= 2 && f.long_labels ? gen_bytes(r, 256, true) : "Cue 2";
        case 4: return size >= 2 && f.long_labels ? gen_bytes(r, 300, true) : "Cue 3";
        case 5: return gen_utf8(r, 1 + r.below(6));
        case 6: return f.nul_bytes ? std::string("a\0b", 3) : "ab";
        default: return "Cue " + std::to_string(r.below(100));
    }
}

inline double gen_offset(Rng& r, const GenFlags& f)
{
    switch (r.below(10))
    {
        case 0: return f.sentinel_offsets ? -1.0 : 10.0;
        case 1: return f.sentinel_offsets ? 0.0 : 11.0;
        case 2: return 1e15;
        case 3: return bits_to_double(0x40F0000000000000ull | (r.next() & 0xFFFFFFFFFFFFFull));
        default: return (double)r.range(1, 10000000) + (r.chance(1, 3) ? 0.5 : 0.0);
    }
}

inline std::vector<std::optional<djinterop::hot_cue>> gen_hot_cues(
    Rng& r, int size, const GenFlags& f)
{
    std::vector<std::optional<djinterop::hot_cue>> v;
    size_t n;
    switch (r.below(8))
    {
        case 0: n = 0; break;
        case 1: n = 8; break;
        case 2: n = 1; break;
        case 3: n = f.many_slots ? 9 + r.below(4) : 8; break;
        default: n = r.below(9); break;
    }
    // occupied-slot pattern
    unsigned pat = r.below(6);
    for (size_t i = 0; i < n; ++i)
    {
        bool occ;
        switch (pat)
        {
            case 0: occ = true; break;
            case 1: occ = false; break;
            case 2: occ = (i == 0); break;
            case 3: occ = (i == 7); break;
            default: occ = r.chance(1, 2); break;
        }
        if (!occ)
        {
            v.emplace_back(std::nullopt);
            continue;
        }
        djinterop::hot_cue c;
        c.label = gen_label(r, size, f);
        c.sample_offset = gen_offset(r, f);
        c.color = gen_color(r);
        v.emplace_back(c);
    }
    return v;
}

inline std::vector<std::optional<djinterop::loop>> gen_loops(Rng& r, int size,
                                                            const GenFlags& f)
{
    std::vector<std::optional<djinterop::loop>> v;
    size_t n;
    switch (r.below(8))
    {
        case 0: n = 0; break;
        case 1: n = 8; break;
        case 2: n = 1; break;
        case 3: n = f.many_slots ? 9 + r.below(4) : 8; break;
        default: n = r.below(9); break;
    }
    unsigned pat = r.below(6);
    for (size_t i = 0; i < n; ++i)
    {
        bool occ;
        switch (pat)
        {
            case 0: occ = true; break;
            case 1: occ = false; break;
            case 2: occ = (i == 0); break;
            case 3: occ = (i == 7); break;
            default: occ = r.chance(1, 2); break;
        }
        if (!occ)
        {
            v.emplace_back(std::nullopt);
            continue;
        }
        djinterop::loop l;
        l.label = gen_label(r, size, f);
        l.start_sample_offset = gen_offset(r, f);
        l.end_sample_offset = gen_offset(r, f);
        l.color = gen_color(r);
        v.emplace_back(l);
    }
    return v;
}

inline std::vector<djinterop::beatgrid_marker> gen_beatgrid(Rng& r, int size,
                                                            const GenFlags& f)
{
    std::vector<djinterop::beatgrid_marker> g;
    unsigned k = r.below(10);
    if (k <= 3)
        return g;
    if (k == 4 && f.odd_grids)
    {
        g.push_back({(int)r.range(-4, 4), (double)r.range(0, 100000)});
        return g;  // 1-marker grid
    }
    size_t n = (k == 5) ? 2 + r.below(60) : 2 + r.below(3);
    if (k == 6 && size >= 3 && f.big)
        n = 700 + r.below(300);  // crosses the 16 KiB zlib chunk
    if (k == 8 && size >= 2 && f.big && r.chance(1, 4))
    {
        // the marker-count boundary of the 1.x format and the top of the statement's range
        static const size_t edge[] = {32767, 32768, 32768, 32769, 40000};
        n = edge[r.below(5)];
    }
    int idx = (int)r.range(-8, 4);
    double off = (double)r.range(-50000, 50000) + (r.chance(1, 2) ? 0.25 : 0);
    for (size_t i = 0; i < n; ++i)
    {
        g.push_back({idx, off});
        idx += (int)r.range(1, 64);
        off += (double)r.range(1000, 900000) + r.unit();
    }
    if (k == 7 && f.odd_grids && g.size() >= 2)
    {
        // non-increasing somewhere
        size_t i = 1 + r.below(g.size() - 1);
        if (r.chance(1, 2))
            g[i].sample_offset = g[i - 1].sample_offset;
        else
            g[i].index = g[i - 1].index;
    }
    return g;
}

inline std::vector<djinterop::waveform_entry> gen_waveform(Rng& r, int size,
                                                           const GenFlags& f,
                                                           size_t recommended)
{
    std::vector<djinterop::waveform_entry> w;
    size_t n;
    switch (r.below(10))
    {
        case 0:
        case 1:
        case 2:
        case 3: n = 0; break;
        case 4: n = 1; break;
        case 5: n = recommended && recommended < 20000 ? recommended : 64; break;
        case 6: n = recommended && recommended < 20000 ? recommended + 1 + r.below(5) : 100; break;
        case 7:
            n = (size >= 3 && f.big) ? 3000 + r.below(3000) : 33;
            if (size >= 2 && f.big && r.chance(1, 3))
            {
                // payload sizes around whole multiples of the codec's 16 KiB chunk (1.x high-res: 30 + 6 n bytes)
                static const size_t edge[] = {8187, 8186, 8188, 2725, 2726, 5456, 5457, 16379};
                n = edge[r.below(8)];
            }
            break;
        default: n = 2 + r.below(40); break;
    }
    w.resize(n);
    bool opaque = r.chance(1, 2);
    for (auto& e : w)
    {
        uint64_t x = r.next();
        e.low.value = (uint8_t)x;
        e.mid.value = (uint8_t)(x >> 8);
        e.high.value = (uint8_t)(x >> 16);
        e.low.opacity = opaque ? 255 : (uint8_t)(x >> 24);
        e.mid.opacity = opaque ? 255 : (uint8_t)(x >> 32);
        e.high.opacity = opaque ? 255 : (uint8_t)(x >> 40);
    }
    return w;
}

inline std::string gen_path(Rng& r, uint64_t uniq, const GenFlags& f)
{
    static const char* dirs[] = {"", "../Music/", "a/b/c/", "Ünï/", "x.y/"};
    static const char* exts[] = {".mp3", ".flac", ".wav", ".m4a", ".MP3", ".ogg"};
    std::string p = dirs[r.below(5)];
    p += "track" + std::to_string(uniq);
    unsigned k = r.below(20);
    if (k == 0)
        return p;  // no extension
    if (k == 1)
        return p + ".";
    if (k == 2)
        return p + ".tar.gz";
    (void)f;
    return p + exts[r.below(6)];
}

// A snapshot drawn from (seed, size).  `uniq` keeps paths distinct.
inline djinterop::track_snapshot gen_snapshot(uint64_t seed, int size,
                                              const GenFlags& f, uint64_t uniq)
{
    using namespace djinterop;
    Rng r(seed ^ 0x51A9517ull);
    track_snapshot s;
    if (size == 0)
    {
        s.relative_path = "track" + std::to_string(uniq) + ".mp3";
        return s;
    }
    if (!(f.no_path && r.chance(1, 25)))
        s.relative_path = gen_path(r, uniq, f);
    s.album = gen_opt_string(r, size, f);
    s.artist = gen_opt_string(r, size, f);
    s.comment = gen_opt_string(r, size, f);
    s.composer = gen_opt_string(r, size, f);
    s.genre = gen_opt_string(r, size, f);
    s.publisher = gen_opt_string(r, size, f);
    s.title = gen_opt_string(r, size, f);
    if (r.chance(2, 3))
        s.average_loudness = gen_double(r, f);
    if (r.chance(2, 3))
        s.bitrate = gen_int(r);
    if (r.chance(2, 3))
        s.bpm = r.chance(1, 2) ? gen_double(r, f, true) : (double)r.range(60, 180);
    if (r.chance(2, 3))
    {
        static const int64_t ds[] = {0, 1, 999, 1000, 1001, 59999, 3600000, 123456789};
        s.duration = std::chrono::milliseconds{
            r.chance(1, 2) ? ds[r.below(8)] : r.range(0, 10000000)};
    }
    if (r.chance(2, 3))
    {
        static const unsigned long long fb[] = {0ull, 1ull, 1048576ull,
                                                0x7FFFFFFFFFFFFFFFull,
                                                0xFFFFFFFFFFFFFFFFull, 4294967296ull};
        s.file_bytes = fb[r.below(6)];
    }
    if (r.chance(2, 3))
        s.key = static_cast<musical_key>(r.chance(1, 4) ? 0 : r.below(24));
    if (r.chance(2, 3))
    {
        static const int64_t ts[] = {0, 1, 1509321800, 2147483647, 2147483648ll, 4102444800ll};
        int64_t secs = r.chance(1, 2) ? ts[r.below(6)] : r.range(1, 2000000000);
        auto tp = std::chrono::system_clock::time_point{std::chrono::seconds{secs}};
        if (r.chance(1, 4))
            tp += std::chrono::milliseconds{(int)r.range(1, 999)};
        s.last_played_at = tp;
    }
    if (r.chance(2, 3))
        s.main_cue = gen_offset(r, f);
    if (r.chance(2, 3))
    {
        static const int rs[] = {-5, 0, 1, 50, 100, 101, 20, 80};
        s.rating = rs[r.below(8)];
    }
    if (r.chance(3, 4))
    {
        static const double rates[] = {44100, 48000, 96000, 0, 1.5, 22050, 44100.5};
        s.sample_rate = rates[r.below(7)];
    }
    if (r.chance(3, 4))
    {
        static const unsigned long long cs[] = {0ull, 1ull, 44100ull * 200,
                                                48000ull * 3600, 1ull << 40,
                                                (1ull << 53) + 1, 16061375ull,
                                                // the edges of the signed 64-bit field the count is stored in
                                                (1ull << 63) - 1, (1ull << 63) + 5, ~0ull};
        s.sample_count = cs[r.chance(1, 8) ? 7 + r.below(3) : r.below(7)];
    }
    if (r.chance(2, 3))
        s.track_number = gen_int(r);
    if (r.chance(2, 3))
        s.year = gen_int(r);
    s.hot_cues = gen_hot_cues(r, size, f);
    s.loops = gen_loops(r, size, f);
    s.beatgrid = gen_beatgrid(r, size, f);
    size_t rec = 0;
    if (s.sample_rate && s.sample_count && *s.sample_rate >= 210 &&
        *s.sample_count < (1ull << 30))
    {
        auto ext = engine::calculate_high_resolution_waveform_extents(
            *s.sample_count, *s.sample_rate);
        rec = (size_t)ext.size;
    }
    s.waveform = gen_waveform(r, size, f, rec);
    if (f.rich)
    {
        // a fully analysed track: every piece of performance data present, so
        // that setters with conditional statements issue all of them
        static const double rr[] = {44100, 48000, 96000, 22050};
        s.sample_rate = rr[r.below(4)];
        s.sample_count = (unsigned long long)(*s.sample_rate) * (60 + r.below(400));
        s.duration = std::chrono::milliseconds{(int64_t)(*s.sample_count / (unsigned long long)*s.sample_rate) * 1000};
        if (!s.bpm)
            s.bpm = (double)r.range(60, 180);
        if (!s.average_loudness || *s.average_loudness == 0)
            s.average_loudness = 0.5;
        if (!s.key)
            s.key = static_cast<musical_key>(r.below(24));
        if (!s.main_cue || *s.main_cue <= 0)
            s.main_cue = (double)r.range(1, 100000);
        if (s.beatgrid.size() < 2)
            s.beatgrid = {{0, (double)r.range(0, 5000)}, {(int)r.range(100, 400), (double)r.range(5000000, 9000000)}};
        s.hot_cues.resize(8);
        s.loops.resize(8);
        for (int i = 0; i < 8; i += 3)
        {
            if (!s.hot_cues[i])
                s.hot_cues[i] = hot_cue{"Cue " + std::to_string(i), (double)r.range(1, 1000000), gen_color(r)};
            if (!s.loops[i])
                s.loops[i] = loop{"Loop " + std::to_string(i), (double)r.range(1, 1000000), (double)r.range(1000000, 2000000), gen_color(r)};
        }
        if (s.waveform.empty())
        {
            auto ext = engine::calculate_high_resolution_waveform_extents(*s.sample_count, *s.sample_rate);
            size_t n = (size_t)std::min<unsigned long long>(ext.size, 600);
            s.waveform.resize(std::max<size_t>(n, 8));
            for (auto& e : s.waveform)
            {
                uint64_t x = r.next();
                e.low.value = (uint8_t)x;
                e.mid.value = (uint8_t)(x >> 8);
                e.high.value = (uint8_t)(x >> 16);
                e.low.opacity = e.mid.opacity = e.high.opacity = 255;
            }
        }
    }
    return s;
}

// crate names: small alphabet to provoke duplicates, plus invalid shapes
inline std::string gen_crate_name(Rng& r, const GenFlags& f, bool allow_invalid)
{
    unsigned k = r.below(24);
    if (allow_invalid)
    {
        if (k == 0)
            return "";
        if (k == 1)
            return "a;b";
        if (k == 2)
            return ";";
    }
    if (k == 3 && f.nul_bytes)
        return std::string("n\0x", 3);
    if (k == 4)
        return gen_utf8(r, 1 + r.below(4));
    if (k == 5)
        return gen_bytes(r, 300, true);
    static const char* names[] = {"A", "B", "C", "D", "E", "House", "Techno"};
    return names[r.below(7)];
}

}  // namespace djsim
