// Actor A: independent auditor.  Reads the raw simulated disk through its own
// SQLite connection and decodes every stored blob with refcodec.  Decides C11
// (well-formed Engine library) and the "library writes, independent decoder
// reads" half of C02.
#include <sqlite3.h>

#include <algorithm>
#include <cstring>
#include <functional>

#include "refcodec.hpp"
#include "world.hpp"

namespace djsim
{
namespace
{
struct RawDb
{
    sqlite3* h = nullptr;
    std::string err;
    bool open(const std::string& path, bool readonly = true)
    {
        int rc = sqlite3_open_v2(path.c_str(), &h, readonly ? SQLITE_OPEN_READONLY : SQLITE_OPEN_READWRITE, nullptr);
        if (rc != SQLITE_OK)
        {
            err = sqlite3_errmsg(h);
            return false;
        }
        return true;
    }
    ~RawDb()
    {
        if (h)
            sqlite3_close_v2(h);
    }
    bool exec(const std::string& sql)
    {
        char* e = nullptr;
        int rc = sqlite3_exec(h, sql.c_str(), nullptr, nullptr, &e);
        if (rc != SQLITE_OK)
        {
            err = e ? e : "error";
            sqlite3_free(e);
            return false;
        }
        return true;
    }
    bool q(const std::string& sql, const std::function<void(sqlite3_stmt*)>& row)
    {
        sqlite3_stmt* st = nullptr;
        if (sqlite3_prepare_v2(h, sql.c_str(), -1, &st, nullptr) != SQLITE_OK)
        {
            err = sqlite3_errmsg(h);
            return false;
        }
        int rc;
        while ((rc = sqlite3_step(st)) == SQLITE_ROW)
            row(st);
        sqlite3_finalize(st);
        if (rc != SQLITE_DONE)
        {
            err = sqlite3_errmsg(h);
            return false;
        }
        return true;
    }
};

std::string col_text(sqlite3_stmt* st, int i)
{
    auto* p = sqlite3_column_text(st, i);
    int n = sqlite3_column_bytes(st, i);
    return p ? std::string((const char*)p, (size_t)n) : std::string();
}
ref::Bytes col_blob(sqlite3_stmt* st, int i)
{
    auto* p = (const uint8_t*)sqlite3_column_blob(st, i);
    int n = sqlite3_column_bytes(st, i);
    return p ? ref::Bytes(p, p + n) : ref::Bytes();
}
bool same_bits(double a, double b) { return double_bits(a) == double_bits(b); }
// an absent optional stands for a stored zero of either sign
bool same_opt(double stored, const std::optional<double>& observed)
{
    return observed ? same_bits(stored, *observed) : stored == 0;
}

std::string basename_of(const std::string& p)
{
    auto pos = p.rfind('/');
    return pos == std::string::npos ? p : p.substr(pos + 1);
}
// extension = text after the last '.' of the file name; none -> no value
bool ext_of(const std::string& path, std::string& ext)
{
    std::string f = basename_of(path);
    auto pos = f.rfind('.');
    if (pos == std::string::npos)
        return false;
    ext = f.substr(pos + 1);
    return true;
}
}  // namespace

struct BlobSet
{
    ref::Bytes track, highres, overview, beat, cues, loops;
    bool have_highres = false;
};

static void check_blobs(World& w, int64_t id, const BlobSet& b, const dj::track_snapshot* snap, const dj::track_snapshot* given = nullptr)
{
    // `snap` is what the library itself reads back; `given` (when the step was a snapshot write to this track) is what
    // the caller handed in.  An encoder and a decoder that drift together agree with each other - the independent
    // decoder must agree with the caller: exact fields of the given value are compared with the stored bytes directly.
    // rows written through the table API hold whatever the caller gave: only decodability is judged there
    const bool shapes = !(w.plan.cfg.table_api && w.plan.cfg.profile.compare(0, 5, "table") == 0);
    if (!shapes)
        snap = nullptr;

    std::string F = w.fam();
    std::string ids = std::to_string(id);
    auto bad11 = [&](const std::string& kind, const std::string& why) {
        w.report("C11", "C11|blob|" + F + "|" + kind + "-undecodable",
                 "stored " + kind + " blob of track " + ids + " is not decodable by the independent reader: " + why);
        // ... which is also the independent decoder disagreeing about what the library wrote (C02)
        w.report("C02", "C02|written|" + F + "|" + kind + ":undecodable",
                 "stored " + kind + " blob of track " + ids + " does not have the documented layout of its kind: " + why);
    };
    auto bad02 = [&](const std::string& kind, const std::string& field, const std::string& why) {
        w.report("C02", "C02|written|" + F + "|" + kind + ":" + field,
                 "stored " + kind + " blob of track " + ids + ": independent decoder disagrees on " + field + ": " + why);
    };
    std::string err;
    ref::Bytes p;
    // ---- track data
    if (!b.track.empty())
    {
        if (!ref::zunwrap(b.track, p, err))
            bad02("trackData", "frame", err);
        else if (w.v2)
        {
            ref::TrackData2 t;
            if (!ref::dec_track2(p, t, err))
                bad11("trackData", err);
            else if (snap)
            {
                if (!same_opt(t.sample_rate, snap->sample_rate))
                    bad02("trackData", "sample_rate", "");
                if ((uint64_t)t.samples != snap->sample_count.value_or(0))
                    bad02("trackData", "samples", "");
                if (!same_opt(t.loud_low, snap->average_loudness))
                    bad02("trackData", "average_loudness", "");
                if (t.key != (snap->key ? (int32_t)*snap->key : 0))
                    bad02("trackData", "key", "decoded " + std::to_string(t.key));
            }
        }
        else
        {
            ref::TrackData1 t;
            if (!ref::dec_track1(p, t, err))
                bad11("trackData", err);
            else if (snap)
            {
                if (!same_opt(t.sample_rate, snap->sample_rate))
                    bad02("trackData", "sample_rate", "");
                if ((uint64_t)t.samples != snap->sample_count.value_or(0))
                    bad02("trackData", "samples", "");
                if (!same_opt(t.loudness, snap->average_loudness))
                    bad02("trackData", "average_loudness", "");
                // (a 1.x blob key of 0 means "none here"; after the second party removed the performance row the
                //  snapshot legitimately falls back to the key in the integer metadata)
                if (t.key != (snap->key ? (int32_t)*snap->key : 0) && !(t.key == 0 && w.unanalysed.count(id)))
                    bad02("trackData", "key", "decoded " + std::to_string(t.key));
            }
        }
    }
    // ---- quick cues
    if (!b.cues.empty())
    {
        if (!ref::zunwrap(b.cues, p, err))
            bad02("quickCues", "frame", err);
        else
        {
            ref::QuickCues q;
            if (!ref::dec_cues(p, q, err))
                bad11("quickCues", err);
            else if (snap)
            {
                if (!w.v2 && !q.extra.empty())
                    bad11("quickCues", "trailing bytes");
                if (q.cues.size() != snap->hot_cues.size())
                    bad02("quickCues", "count", std::to_string(q.cues.size()) + " stored, " + std::to_string(snap->hot_cues.size()) + " observed");
                else
                    for (size_t i = 0; i < q.cues.size(); ++i)
                    {
                        auto& s = snap->hot_cues[i];
                        auto& c = q.cues[i];
                        if (s)
                        {
                            if (c.label != s->label)
                                bad02("quickCues", "label", "slot " + std::to_string(i));
                            if (!same_bits(c.offset, s->sample_offset))
                                bad02("quickCues", "offset", "slot " + std::to_string(i));
                            if (c.a != s->color.a || c.r != s->color.r || c.g != s->color.g || c.b != s->color.b)
                                bad02("quickCues", "colour", "slot " + std::to_string(i) + " (stored order must be A,R,G,B)");
                        }
                        else if (c.offset != -1)
                            bad02("quickCues", "empty-slot", "slot " + std::to_string(i) + " observed empty but stored offset is not -1");
                    }
                if (!same_opt(q.adj_main, snap->main_cue))
                    bad02("quickCues", "main_cue", "");
                if (given)
                    for (size_t i = 0; i < q.cues.size() && i < given->hot_cues.size(); ++i)
                    {
                        auto& g = given->hot_cues[i];
                        auto& c = q.cues[i];
                        if (!g || g->sample_offset == -1 || c.offset == -1)
                            continue;
                        if (c.label != g->label)
                            bad02("quickCues", "label-vs-given", "slot " + std::to_string(i) + ": the stored label is not the label the caller wrote");
                        if (!same_bits(c.offset, g->sample_offset) || c.a != g->color.a || c.r != g->color.r || c.g != g->color.g || c.b != g->color.b)
                            bad02("quickCues", "entry-vs-given", "slot " + std::to_string(i) + ": stored offset / colour is not what the caller wrote");
                        w.probes.hit("audit_given_cue_compared");
                    }
            }
        }
    }
    // ---- loops (not compressed)
    if (!b.loops.empty())
    {
        ref::Loops l;
        if (!ref::dec_loops(b.loops, l, err))
            bad11("loops", err);
        else if (snap)
        {
            if (!w.v2 && !l.extra.empty())
                bad11("loops", "trailing bytes");
            if (l.loops.size() != snap->loops.size())
                bad02("loops", "count", std::to_string(l.loops.size()) + " stored, " + std::to_string(snap->loops.size()) + " observed");
            else
                for (size_t i = 0; i < l.loops.size(); ++i)
                {
                    auto& s = snap->loops[i];
                    auto& c = l.loops[i];
                    if (s)
                    {
                        if (c.label != s->label)
                            bad02("loops", "label", "slot " + std::to_string(i));
                        if (!same_bits(c.start, s->start_sample_offset) || !same_bits(c.end, s->end_sample_offset))
                            bad02("loops", "offsets", "slot " + std::to_string(i));
                        if (c.a != s->color.a || c.r != s->color.r || c.g != s->color.g || c.b != s->color.b)
                            bad02("loops", "colour", "slot " + std::to_string(i) + " (stored order must be A,R,G,B)");
                        if (!(c.start_set && c.end_set))
                            bad02("loops", "flags", "slot " + std::to_string(i));
                    }
                    else if (w.v2 ? (c.start_set || c.end_set) : (c.start != -1))
                        bad02("loops", "empty-slot", "slot " + std::to_string(i));
                }
            if (given)
                for (size_t i = 0; i < l.loops.size() && i < given->loops.size(); ++i)
                {
                    auto& g = given->loops[i];
                    auto& c = l.loops[i];
                    if (!g || g->start_sample_offset == -1 || !(w.v2 ? (c.start_set && c.end_set) : (c.start != -1)))
                        continue;
                    if (c.label != g->label)
                        bad02("loops", "label-vs-given", "slot " + std::to_string(i) + ": the stored label is not the label the caller wrote");
                    if (!same_bits(c.start, g->start_sample_offset) || !same_bits(c.end, g->end_sample_offset) || c.a != g->color.a ||
                        c.r != g->color.r || c.g != g->color.g || c.b != g->color.b)
                        bad02("loops", "entry-vs-given", "slot " + std::to_string(i) + ": stored offsets / colour are not what the caller wrote");
                    w.probes.hit("audit_given_loop_compared");
                }
        }
    }
    // ---- beat data
    if (!b.beat.empty())
    {
        if (!ref::zunwrap(b.beat, p, err))
            bad02("beatData", "frame", err);
        else
        {
            ref::BeatData d;
            if (!ref::dec_beat(p, d, err))
                bad11("beatData", err);
            else
            {
                for (auto x : d.extra)
                    if (!w.v2 && x != 0)
                        bad11("beatData", "non-zero trailing bytes");
                for (auto* g : {&d.def, &d.adj})
                    for (size_t i = 0; i < g->size(); ++i)
                    {
                        int64_t exp = i + 1 < g->size() ? (*g)[i + 1].beat - (*g)[i].beat : 0;
                        if (shapes && (*g)[i].beats_to_next != exp)
                            bad02("beatData", "beats-until-next", "marker " + std::to_string(i));
                    }
                if (snap)
                {
                    if (!same_opt(d.sample_rate, snap->sample_rate))
                        bad02("beatData", "sample_rate", "");
                    if (!same_bits(d.samples, (double)snap->sample_count.value_or(0)))
                        bad02("beatData", "samples", "");
                    if (d.adj.size() != snap->beatgrid.size())
                        bad02("beatData", "marker-count", std::to_string(d.adj.size()) + " stored, " + std::to_string(snap->beatgrid.size()) + " observed");
                    else
                        for (size_t i = 0; i < d.adj.size(); ++i)
                            if (d.adj[i].beat != snap->beatgrid[i].index || !same_bits(d.adj[i].offset, snap->beatgrid[i].sample_offset))
                                bad02("beatData", "marker", "marker " + std::to_string(i));
                }
            }
        }
    }
    // ---- overview waveform
    if (!b.overview.empty())
    {
        if (!ref::zunwrap(b.overview, p, err))
            bad02("overviewWaveFormData", "frame", err);
        else if (!p.empty())
        {
            ref::Overview o;
            if (!ref::dec_overview(p, o, err))
                bad11("overviewWaveFormData", err);
            else
            {
                std::array<uint8_t, 3> mx{};
                for (auto& q : o.pts)
                    for (int k = 0; k < 3; ++k)
                        mx[k] = std::max(mx[k], q[k]);
                if (shapes && mx != o.max)
                    bad02("overviewWaveFormData", "maximum-entry", "trailing entry is not the per-band maximum");
                if (snap && w.v2)
                {
                    if (o.pts.size() != snap->waveform.size())
                        bad02("overviewWaveFormData", "count", "");
                    else
                        for (size_t i = 0; i < o.pts.size(); ++i)
                            if (o.pts[i][0] != snap->waveform[i].low.value || o.pts[i][1] != snap->waveform[i].mid.value ||
                                o.pts[i][2] != snap->waveform[i].high.value)
                            {
                                bad02("overviewWaveFormData", "points", "entry " + std::to_string(i));
                                break;
                            }
                }
            }
        }
    }
    // ---- high-resolution waveform (1.x)
    if (b.have_highres && !b.highres.empty())
    {
        if (!ref::zunwrap(b.highres, p, err))
            bad02("highResolutionWaveFormData", "frame", err);
        else if (!p.empty())
        {
            ref::HighRes h;
            if (!ref::dec_highres(p, h, err))
                bad11("highResolutionWaveFormData", err);
            else
            {
                std::array<uint8_t, 6> mx{};
                for (auto& q : h.pts)
                    for (int k = 0; k < 6; ++k)
                        mx[k] = std::max(mx[k], q[k]);
                if (mx != h.max)
                    bad02("highResolutionWaveFormData", "maximum-entry", "trailing entry is not the per-band maximum");
                if (snap)
                {
                    if (h.pts.size() != snap->waveform.size())
                        bad02("highResolutionWaveFormData", "count", "");
                    else
                        for (size_t i = 0; i < h.pts.size(); ++i)
                        {
                            auto& e = snap->waveform[i];
                            if (h.pts[i][0] != e.low.value || h.pts[i][1] != e.mid.value || h.pts[i][2] != e.high.value ||
                                h.pts[i][3] != e.low.opacity || h.pts[i][4] != e.mid.opacity || h.pts[i][5] != e.high.opacity)
                            {
                                bad02("highResolutionWaveFormData", "points", "entry " + std::to_string(i));
                                break;
                            }
                        }
                }
            }
        }
    }
}

void World::audit()
{
    if (!plan.cfg.on_disk || !db)
        return;
    HarnessScope hs;
    std::string F = fam();
    RawDb a;
    std::string main_path = v2 ? dir + "/Database2/m.db" : dir + "/m.db";
    // a journal left behind by a failed call (its rollback could not complete): a reader that comes across it plays it
    // back, as Engine would - which a read-only connection cannot do
    bool hot = false;
    for (auto& kv : g_disk.files)
        if (kv.first.size() > 8 && kv.first.compare(kv.first.size() - 8, 8, "-journal") == 0 && !kv.second->bytes.empty())
            hot = true;
    if (hot)
        probes.hit("audit_recovers_hot_journal");
    if (!a.open(main_path, !hot))
    {
        report("C11", "C11|open|" + F + "|failed", "auditor cannot open " + main_path + ": " + a.err);
        return;
    }
    if (!v2 && !a.exec("ATTACH '" + dir + "/p.db' AS perfdata"))
    {
        report("C11", "C11|open|" + F + "|failed", "auditor cannot attach p.db: " + a.err);
        return;
    }
    probes.hit("audits");
    // ---- SQLite level
    {
        std::string res;
        bool ok = a.q("PRAGMA integrity_check", [&](sqlite3_stmt* st) { res += col_text(st, 0) + ";"; });
        if (!ok || res != "ok;")
            report("C11", "C11|integrity_check|" + F + "|failed", "PRAGMA integrity_check: " + (ok ? res : a.err));
        if (!v2)
        {
            res.clear();
            ok = a.q("PRAGMA perfdata.integrity_check", [&](sqlite3_stmt* st) { res += col_text(st, 0) + ";"; });
            if (!ok || res != "ok;")
                report("C11", "C11|integrity_check|" + F + "|failed-p.db", "PRAGMA integrity_check (p.db): " + (ok ? res : a.err));
        }
        std::string fk;
        ok = a.q("PRAGMA foreign_key_check", [&](sqlite3_stmt* st) {
            fk += col_text(st, 0) + "(rowid " + col_text(st, 1) + ")->" + col_text(st, 2) + "; ";
        });
        if (!ok)
            report("C11", "C11|foreign_key_check|" + F + "|error", a.err);
        else if (!fk.empty())
        {
            std::string table = fk.substr(0, fk.find('('));
            report("C11", "C11|foreign_key_check|" + F + "|" + table, "PRAGMA foreign_key_check reports: " + fk.substr(0, 300));
        }
    }
    // ---- verify()
    {
        // verify() belongs to the library: run it outside the harness scope
        int saved = g_harness_depth;
        g_harness_depth = 0;
        Outcome o = call(FaultSpec{}, [&] { db->verify(); });
        g_harness_depth = saved;
        if (o.threw)
            report("C11", "C11|verify|" + F + "|threw", "verify() threw " + o.exc + ": " + o.what);
    }
    // ---- tracks: derived columns and blobs
    std::string db_uuid;
    a.q("SELECT uuid FROM Information", [&](sqlite3_stmt* st) { db_uuid = col_text(st, 0); });
    std::set<int64_t> track_rows;
    if (v2)
    {
        a.q("SELECT id, path, filename, fileType, originDatabaseUuid, originTrackId, trackData, overviewWaveFormData, "
            "beatData, quickCues, loops FROM Track",
            [&](sqlite3_stmt* st) {
                int64_t id = sqlite3_column_int64(st, 0);
                track_rows.insert(id);
                std::string path = col_text(st, 1), fn = col_text(st, 2), ft = col_text(st, 3);
                // rows written through the table API store the derived columns exactly as the caller gave them
                const bool derived = !(plan.cfg.table_api && plan.cfg.profile.compare(0, 5, "table") == 0);
                if (derived && fn != basename_of(path))
                    report("C11", "C11|filename|v2|mismatch", "Track " + std::to_string(id) + ": filename '" + fn + "' is not the base name of path '" + path + "'");
                std::string ext;
                if (derived && ext_of(path, ext) && ft != ext)
                    report("C11", "C11|fileType|v2|mismatch", "Track " + std::to_string(id) + ": fileType '" + ft + "' is not the extension of path '" + path + "'");
                if (derived && col_text(st, 4) != db_uuid)
                    report("C11", "C11|originDatabaseUuid|v2|mismatch", "Track " + std::to_string(id) + ": originDatabaseUuid differs from Information.uuid");
                if (derived && sqlite3_column_int64(st, 5) != id)
                    report("C11", "C11|originTrackId|v2|mismatch", "Track " + std::to_string(id) + ": originTrackId = " + std::to_string(sqlite3_column_int64(st, 5)));
                BlobSet b;
                b.track = col_blob(st, 6);
                b.overview = col_blob(st, 7);
                b.beat = col_blob(st, 8);
                b.cues = col_blob(st, 9);
                b.loops = col_blob(st, 10);
                auto it = prev.track.find(id);
                const dj::track_snapshot* snap = (it != prev.track.end() && it->second.have_snapshot && !foreign_tracks.count(id)) ? &it->second.snapshot : nullptr;
                auto gw = last_written.find(id);
                check_blobs(*this, id, b, check(CK_AUDIT) ? snap : nullptr, (snap && check(CK_AUDIT) && gw != last_written.end()) ? &gw->second : nullptr);
            });
    }
    else
    {
        a.q("SELECT id, path, filename FROM Track WHERE path IS NOT NULL", [&](sqlite3_stmt* st) {
            int64_t id = sqlite3_column_int64(st, 0);
            track_rows.insert(id);
            std::string path = col_text(st, 1), fn = col_text(st, 2);
            if (fn != basename_of(path))
                report("C11", "C11|filename|" + F + "|mismatch", "Track " + std::to_string(id) + ": filename '" + fn + "' is not the base name of path '" + path + "'");
        });
        // file extension metadata (type 13)
        std::map<int64_t, std::pair<bool, std::string>> exts;
        a.q("SELECT id, text FROM MetaData WHERE type = 13", [&](sqlite3_stmt* st) {
            exts[sqlite3_column_int64(st, 0)] = {sqlite3_column_type(st, 1) != SQLITE_NULL, col_text(st, 1)};
        });
        a.q("SELECT id, path FROM Track WHERE path IS NOT NULL", [&](sqlite3_stmt* st) {
            int64_t id = sqlite3_column_int64(st, 0);
            std::string ext;
            bool has = ext_of(col_text(st, 1), ext);
            auto it = exts.find(id);
            bool stored = it != exts.end() && it->second.first;
            if (has != stored || (has && it->second.second != ext))
                report("C11", "C11|file_extension|" + F + "|mismatch",
                       "Track " + std::to_string(id) + ": file-extension metadata does not match the path '" + col_text(st, 1) + "'");
        });
        // orphans
        for (const char* t : {"MetaData", "MetaDataInteger"})
            a.q(std::string("SELECT DISTINCT id FROM ") + t, [&](sqlite3_stmt* st) {
                int64_t id = sqlite3_column_int64(st, 0);
                if (!track_rows.count(id))
                    report("C11", std::string("C11|orphan|") + F + "|" + t, std::string(t) + " rows refer to nonexistent track " + std::to_string(id));
            });
        a.q("SELECT id, trackData, highResolutionWaveFormData, overviewWaveFormData, beatData, quickCues, loops "
            "FROM perfdata.PerformanceData",
            [&](sqlite3_stmt* st) {
                int64_t id = sqlite3_column_int64(st, 0);
                if (!track_rows.count(id))
                    report("C11", "C11|orphan|" + F + "|PerformanceData", "PerformanceData row refers to nonexistent track " + std::to_string(id));
                BlobSet b;
                b.track = col_blob(st, 1);
                b.highres = col_blob(st, 2);
                b.have_highres = true;
                b.overview = col_blob(st, 3);
                b.beat = col_blob(st, 4);
                b.cues = col_blob(st, 5);
                b.loops = col_blob(st, 6);
                auto it = prev.track.find(id);
                const dj::track_snapshot* snap = (it != prev.track.end() && it->second.have_snapshot && !foreign_tracks.count(id)) ? &it->second.snapshot : nullptr;
                auto gw = last_written.find(id);
                check_blobs(*this, id, b, check(CK_AUDIT) ? snap : nullptr, (snap && check(CK_AUDIT) && gw != last_written.end()) ? &gw->second : nullptr);
            });
    }
    // ---- crates
    if (!v2)
    {
        std::map<int64_t, std::pair<std::string, std::string>> rows;  // id -> title, path
        a.q("SELECT id, title, path FROM Crate", [&](sqlite3_stmt* st) {
            rows[sqlite3_column_int64(st, 0)] = {col_text(st, 1), col_text(st, 2)};
        });
        for (auto& kv : model.crates)
        {
            auto it = rows.find(kv.first);
            if (it == rows.end())
                continue;
            // expected path: titles from the root, each followed by ';'
            std::vector<std::string> names;
            for (int64_t c = kv.first; c; c = model.crates.count(c) ? model.crates[c].parent : 0)
                names.push_back(model.crates[c].name);
            std::string exp;
            for (auto n = names.rbegin(); n != names.rend(); ++n)
                exp += *n + ";";
            if (it->second.second != exp)
                report("C11", "C11|crate-path|" + F + "|mismatch",
                       "Crate " + std::to_string(kv.first) + " path column is '" + it->second.second.substr(0, 80) + "', expected '" + exp.substr(0, 80) + "'");
        }
        std::set<std::pair<int64_t, int64_t>> pl, exp_pl, hi, exp_hi;
        a.q("SELECT crateOriginId, crateParentId FROM CrateParentList", [&](sqlite3_stmt* st) {
            auto p = std::make_pair(sqlite3_column_int64(st, 0), sqlite3_column_int64(st, 1));
            if (!pl.insert(p).second)
                report("C11", "C11|CrateParentList|" + F + "|duplicate-row", "CrateParentList holds a row twice");
        });
        a.q("SELECT crateId, crateIdChild FROM CrateHierarchy", [&](sqlite3_stmt* st) {
            auto p = std::make_pair(sqlite3_column_int64(st, 0), sqlite3_column_int64(st, 1));
            if (!hi.insert(p).second)
                report("C11", "C11|CrateHierarchy|" + F + "|duplicate-row", "CrateHierarchy holds a row twice");
        });
        for (auto& kv : model.crates)
        {
            exp_pl.insert({kv.first, kv.second.parent ? kv.second.parent : kv.first});
            for (auto d : model.descendants_of(kv.first))
                exp_hi.insert({kv.first, d});
        }
        if (pl != exp_pl)
            report("C11", "C11|CrateParentList|" + F + "|mismatch", "CrateParentList does not describe the crate forest (" +
                                                                        std::to_string(pl.size()) + " rows, expected " + std::to_string(exp_pl.size()) + ")");
        if (hi != exp_hi)
            report("C11", "C11|CrateHierarchy|" + F + "|mismatch", "CrateHierarchy does not describe the proper-descendant relation (" +
                                                                       std::to_string(hi.size()) + " rows, expected " + std::to_string(exp_hi.size()) + ")");
        a.q("SELECT crateId, trackId FROM CrateTrackList", [&](sqlite3_stmt* st) {
            int64_t c = sqlite3_column_int64(st, 0), t = sqlite3_column_int64(st, 1);
            if (!rows.count(c))
                report("C11", "C11|orphan|" + F + "|CrateTrackList-crate", "CrateTrackList refers to nonexistent crate " + std::to_string(c));
            if (!track_rows.count(t))
                report("C11", "C11|orphan|" + F + "|CrateTrackList-track", "CrateTrackList refers to nonexistent track " + std::to_string(t));
        });
    }
    else
    {
        // sibling chains: per parent, one acyclic chain through all rows ending in 0
        std::map<int64_t, std::map<int64_t, int64_t>> by_parent;  // parent -> id -> next
        std::set<int64_t> lists;
        a.q("SELECT id, parentListId, nextListId FROM Playlist", [&](sqlite3_stmt* st) {
            by_parent[sqlite3_column_int64(st, 1)][sqlite3_column_int64(st, 0)] = sqlite3_column_int64(st, 2);
            lists.insert(sqlite3_column_int64(st, 0));
        });
        auto check_chain = [&](const std::map<int64_t, int64_t>& next, const std::string& what) {
            // exactly one tail, every next is a member, following from the head visits all
            std::map<int64_t, int> indeg;
            int tails = 0;
            for (auto& kv : next)
            {
                if (kv.second == 0)
                    ++tails;
                else if (!next.count(kv.second))
                    return what + ": successor " + std::to_string(kv.second) + " of " + std::to_string(kv.first) + " is not in the list";
                else
                    indeg[kv.second]++;
            }
            if (tails != 1)
                return what + ": " + std::to_string(tails) + " rows have successor 0";
            for (auto& kv : indeg)
                if (kv.second > 1)
                    return what + ": two rows share the successor " + std::to_string(kv.first);
            int heads = 0;
            int64_t head = 0;
            for (auto& kv : next)
                if (!indeg.count(kv.first))
                {
                    ++heads;
                    head = kv.first;
                }
            if (heads != 1)
                return what + ": " + std::to_string(heads) + " heads";
            size_t seen = 0;
            for (int64_t c = head; c && seen <= next.size(); c = next.at(c))
                ++seen;
            if (seen != next.size())
                return what + ": the chain covers " + std::to_string(seen) + " of " + std::to_string(next.size()) + " rows";
            return std::string();
        };
        for (auto& kv : by_parent)
        {
            std::string e = check_chain(kv.second, "children of " + std::to_string(kv.first));
            if (!e.empty())
                report("C11", "C11|nextListId|v2|broken-chain", e);
            if (kv.first != 0 && !lists.count(kv.first))
                report("C11", "C11|orphan|v2|Playlist-parent", "Playlist rows have nonexistent parent " + std::to_string(kv.first));
        }
        std::map<int64_t, std::map<int64_t, int64_t>> ents;
        a.q("SELECT id, listId, trackId, nextEntityId, databaseUuid FROM PlaylistEntity", [&](sqlite3_stmt* st) {
            int64_t l = sqlite3_column_int64(st, 1), t = sqlite3_column_int64(st, 2);
            ents[l][sqlite3_column_int64(st, 0)] = sqlite3_column_int64(st, 3);
            if (!lists.count(l))
                report("C11", "C11|orphan|v2|PlaylistEntity-list", "PlaylistEntity refers to nonexistent list " + std::to_string(l));
            if (col_text(st, 4) == db_uuid && !track_rows.count(t))
                report("C11", "C11|orphan|v2|PlaylistEntity-track", "PlaylistEntity refers to nonexistent track " + std::to_string(t));
        });
        for (auto& kv : ents)
        {
            std::string e = check_chain(kv.second, "entities of list " + std::to_string(kv.first));
            if (!e.empty())
                report("C11", "C11|nextEntityId|v2|broken-chain", e);
        }
    }
}

}  // namespace djsim
