// A SQLite connection owned by the harness (actors F and A): opened inside a
// HarnessScope so that taps and faults never apply to it.
#pragma once
#include <sqlite3.h>

#include <functional>
#include <string>
#include <vector>

#include "simdisk.hpp"

namespace djsim
{
struct HDb
{
    sqlite3* h = nullptr;
    std::string err;
    HDb() = default;
    HDb(const HDb&) = delete;
    bool open(const std::string& path, bool readonly)
    {
        HarnessScope hs;
        int rc = sqlite3_open_v2(path.c_str(), &h, readonly ? SQLITE_OPEN_READONLY : SQLITE_OPEN_READWRITE, nullptr);
        if (rc != SQLITE_OK)
        {
            err = h ? sqlite3_errmsg(h) : "open failed";
            return false;
        }
        return true;
    }
    ~HDb() { close(); }
    void close()
    {
        HarnessScope hs;
        if (h)
            sqlite3_close_v2(h);
        h = nullptr;
    }
    bool exec(const std::string& sql)
    {
        HarnessScope hs;
        char* e = nullptr;
        int rc = sqlite3_exec(h, sql.c_str(), nullptr, nullptr, &e);
        if (rc != SQLITE_OK)
        {
            err = e ? e : "error";
            sqlite3_free(e);
            return false;
        }
        return true;
    }
    // prepared statement with blob/int/text binds; row callback
    struct Bind
    {
        int kind = 0;  // 0 null, 1 int, 2 blob, 3 text
        int64_t i = 0;
        std::vector<uint8_t> b;
        std::string s;
        static Bind Int(int64_t v)
        {
            Bind x;
            x.kind = 1;
            x.i = v;
            return x;
        }
        static Bind Blob(const std::vector<uint8_t>& v)
        {
            Bind x;
            x.kind = 2;
            x.b = v;
            return x;
        }
        static Bind Text(const std::string& v)
        {
            Bind x;
            x.kind = 3;
            x.s = v;
            return x;
        }
        static Bind Null() { return Bind{}; }
    };
    bool run(const std::string& sql, const std::vector<Bind>& binds,
             const std::function<void(sqlite3_stmt*)>& row = nullptr)
    {
        HarnessScope hs;
        sqlite3_stmt* st = nullptr;
        if (sqlite3_prepare_v2(h, sql.c_str(), -1, &st, nullptr) != SQLITE_OK)
        {
            err = sqlite3_errmsg(h);
            return false;
        }
        for (size_t k = 0; k < binds.size(); ++k)
        {
            auto& b = binds[k];
            int idx = (int)k + 1;
            switch (b.kind)
            {
                case 1: sqlite3_bind_int64(st, idx, b.i); break;
                case 2:
                    if (b.b.empty())
                        sqlite3_bind_zeroblob(st, idx, 0);
                    else
                        sqlite3_bind_blob(st, idx, b.b.data(), (int)b.b.size(), SQLITE_TRANSIENT);
                    break;
                case 3: sqlite3_bind_text(st, idx, b.s.data(), (int)b.s.size(), SQLITE_TRANSIENT); break;
                default: sqlite3_bind_null(st, idx); break;
            }
        }
        int rc;
        while ((rc = sqlite3_step(st)) == SQLITE_ROW)
            if (row)
                row(st);
        sqlite3_finalize(st);
        if (rc != SQLITE_DONE)
        {
            err = sqlite3_errmsg(h);
            return false;
        }
        return true;
    }
    static std::vector<uint8_t> blob(sqlite3_stmt* st, int i)
    {
        auto* p = (const uint8_t*)sqlite3_column_blob(st, i);
        int n = sqlite3_column_bytes(st, i);
        return p ? std::vector<uint8_t>(p, p + n) : std::vector<uint8_t>();
    }
    static std::string text(sqlite3_stmt* st, int i)
    {
        auto* p = sqlite3_column_text(st, i);
        int n = sqlite3_column_bytes(st, i);
        return p ? std::string((const char*)p, (size_t)n) : std::string();
    }
};

}  // namespace djsim
