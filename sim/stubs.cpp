// (all actors implemented)
