#include "world.hpp"
namespace djsim
{
bool World::exec_drift_op(const Step&) { return false; }
}  // namespace djsim
