// Temporary stubs for actors implemented later.
#include "world.hpp"
namespace djsim
{
bool World::exec_foreign_op(const Step&) { return false; }
}  // namespace djsim
