// Oracles: per-field round-trip rules (C01/C06), differential checks (C06),
// forest / membership / order model (C07 C08 C09), purity monitor (C16).
#include <algorithm>
#include <cmath>

#include "world.hpp"
#include "tstate.hpp"

namespace djsim
{
static bool dbl_eq(double a, double b) { return double_bits(a) == double_bits(b); }
static bool optd_eq(const std::optional<double>& a, const std::optional<double>& b)
{
    if (a.has_value() != b.has_value())
        return false;
    return !a || dbl_eq(*a, *b);
}
static bool cue_eq(const std::optional<dj::hot_cue>& a, const std::optional<dj::hot_cue>& b)
{
    if (a.has_value() != b.has_value())
        return false;
    if (!a)
        return true;
    return a->label == b->label && dbl_eq(a->sample_offset, b->sample_offset) && a->color == b->color;
}
static bool loop_eq(const std::optional<dj::loop>& a, const std::optional<dj::loop>& b)
{
    if (a.has_value() != b.has_value())
        return false;
    if (!a)
        return true;
    return a->label == b->label && dbl_eq(a->start_sample_offset, b->start_sample_offset) &&
           dbl_eq(a->end_sample_offset, b->end_sample_offset) && a->color == b->color;
}
static bool grid_eq(const std::vector<dj::beatgrid_marker>& a, const std::vector<dj::beatgrid_marker>& b)
{
    if (a.size() != b.size())
        return false;
    for (size_t i = 0; i < a.size(); ++i)
        if (a[i].index != b[i].index || !dbl_eq(a[i].sample_offset, b[i].sample_offset))
            return false;
    return true;
}
static bool grid_holdable_v1(const std::vector<dj::beatgrid_marker>& g)
{
    if (g.empty())
        return true;
    if (g.size() < 2 || g.size() > 32768)
        return false;
    for (size_t i = 1; i < g.size(); ++i)
        if (!(g[i].index > g[i - 1].index) || !(g[i].sample_offset > g[i - 1].sample_offset))
            return false;
    return true;
}

bool World::field_rule(int f, const dj::track_snapshot& s, const dj::track_snapshot& r,
                       bool setter, std::string& why)
{
    auto fail = [&](const std::string& exp) {
        why = std::string(field_name(f)) + ": written " + render_snapshot_field(s, f) +
              ", read back " + render_snapshot_field(r, f) + (exp.empty() ? "" : " (expected " + exp + ")");
        return false;
    };
    switch (f)
    {
        case F_ALBUM: return s.album == r.album || fail("");
        case F_ARTIST: return s.artist == r.artist || fail("");
        case F_COMMENT: return s.comment == r.comment || fail("");
        case F_COMPOSER: return s.composer == r.composer || fail("");
        case F_GENRE: return s.genre == r.genre || fail("");
        case F_PUBLISHER: return s.publisher == r.publisher || fail("");
        case F_TITLE: return s.title == r.title || fail("");
        case F_RELATIVE_PATH: return s.relative_path == r.relative_path || fail("");
        case F_BITRATE: return s.bitrate == r.bitrate || fail("");
        case F_YEAR: return s.year == r.year || fail("");
        case F_TRACK_NUMBER: return s.track_number == r.track_number || fail("");
        case F_KEY: return s.key == r.key || fail("");
        case F_FILE_BYTES:
            if (family == 0)
                return true;  // not representable before 1.15.0
            return s.file_bytes == r.file_bytes || fail("");
        case F_AVERAGE_LOUDNESS:
        {
            std::optional<double> e = (s.average_loudness && *s.average_loudness != 0) ? s.average_loudness : std::nullopt;
            return optd_eq(e, r.average_loudness) || fail("0 = absent, otherwise exact");
        }
        case F_MAIN_CUE:
        {
            std::optional<double> e = (s.main_cue && *s.main_cue != 0) ? s.main_cue : std::nullopt;
            return optd_eq(e, r.main_cue) || fail("0 = absent, otherwise exact");
        }
        case F_SAMPLE_RATE:
        {
            std::optional<double> e = (s.sample_rate && *s.sample_rate != 0) ? s.sample_rate : std::nullopt;
            return optd_eq(e, r.sample_rate) || fail("0 = absent, otherwise exact");
        }
        case F_SAMPLE_COUNT:
        {
            std::optional<unsigned long long> e = (s.sample_count && *s.sample_count != 0) ? s.sample_count : std::nullopt;
            return e == r.sample_count || fail("0 = absent, otherwise exact");
        }
        case F_RATING:
        {
            std::optional<int> e;
            if (s.rating)
                e = std::clamp(*s.rating, 0, 100);
            if (v2 && e && *e == 0)
                e = std::nullopt;
            return e == r.rating || fail("clamped to 0-100" + std::string(v2 ? ", 0 = absent" : ""));
        }
        case F_DURATION:
        {
            if (!s.duration)
                return !r.duration || fail("absent");
            int64_t ms = s.duration->count();
            int64_t t = ms / 1000;  // truncation
            int64_t fl = (ms >= 0) ? t : -((-ms + 999) / 1000);
            if (v2 && t == 0)
                return !r.duration || (r.duration->count() == 0) || fail("whole seconds, 0 = absent");
            if (!r.duration)
                return fail("whole seconds");
            return r.duration->count() == t * 1000 || r.duration->count() == fl * 1000 || fail("whole seconds");
        }
        case F_LAST_PLAYED_AT:
        {
            if (!s.last_played_at)
                return !r.last_played_at || fail("absent");
            if (!r.last_played_at)
                return fail("whole seconds");
            auto ns = std::chrono::duration_cast<std::chrono::nanoseconds>(s.last_played_at->time_since_epoch()).count();
            auto rn = std::chrono::duration_cast<std::chrono::nanoseconds>(r.last_played_at->time_since_epoch()).count();
            int64_t t = ns / 1000000000LL;
            int64_t fl = (ns >= 0) ? t : -((-ns + 999999999LL) / 1000000000LL);
            return rn == t * 1000000000LL || rn == fl * 1000000000LL || fail("whole seconds");
        }
        case F_BPM:
        {
            // bpm lives in an SQL REAL column: SQLite stores -0.0 as integer 0
            if (s.bpm && r.bpm && *s.bpm == 0 && *r.bpm == 0)
                return true;
            if (v2 || setter)
                return optd_eq(s.bpm, r.bpm) || fail("exact");
            // 1.x snapshot write: the given value, its truncation, or the tempo
            // of the first grid segment when a grid and a sample rate exist
            if (optd_eq(s.bpm, r.bpm))
                return true;
            if (s.bpm && r.bpm && *r.bpm == (double)(int64_t)*s.bpm)
                return true;
            if (s.sample_rate && s.beatgrid.size() >= 2 &&
                s.beatgrid[0].sample_offset != s.beatgrid[1].sample_offset && r.bpm)
            {
                double g = *s.sample_rate * 60 * (s.beatgrid[1].index - s.beatgrid[0].index) /
                           (s.beatgrid[1].sample_offset - s.beatgrid[0].sample_offset);
                if (dbl_eq(g, *r.bpm))
                    return true;
            }
            return fail("given value, its truncation, or first-segment tempo");
        }
        case F_BEATGRID:
        {
            if (grid_eq(s.beatgrid, r.beatgrid))
                return true;
            if (!v2 && !grid_holdable_v1(s.beatgrid))
                return fail("a grid the 1.x format cannot hold must be rejected, not altered");
            return fail("exact");
        }
        case F_HOT_CUES:
        {
            if (s.hot_cues.size() > 8)
            {
                // more slots than the documented eight: rejected, or kept as given
                if (r.hot_cues.size() != s.hot_cues.size())
                    return fail("more than 8 cues: rejected or kept unchanged");
                for (size_t i = 0; i < s.hot_cues.size(); ++i)
                    if (!cue_eq(s.hot_cues[i], r.hot_cues[i]) &&
                        !(s.hot_cues[i] && s.hot_cues[i]->sample_offset == -1 && !r.hot_cues[i]))
                        return fail("more than 8 cues: rejected or kept unchanged");
                return true;
            }
            if (r.hot_cues.size() != 8)
                return fail("padded to 8 slots");
            for (size_t i = 0; i < 8; ++i)
            {
                std::optional<dj::hot_cue> e = i < s.hot_cues.size() ? s.hot_cues[i] : std::nullopt;
                if (cue_eq(e, r.hot_cues[i]))
                    continue;
                if (e && e->sample_offset == -1 && !r.hot_cues[i])
                    continue;  // reserved empty-slot encoding
                why = "hot_cues slot " + std::to_string(i) + ": written " +
                      render_snapshot_field(s, f) + ", read back " + render_snapshot_field(r, f);
                return false;
            }
            return true;
        }
        case F_LOOPS:
        {
            if (s.loops.size() > 8)
            {
                if (r.loops.size() != s.loops.size())
                    return fail("more than 8 loops: rejected or kept unchanged");
                for (size_t i = 0; i < s.loops.size(); ++i)
                    if (!loop_eq(s.loops[i], r.loops[i]) &&
                        !(!v2 && s.loops[i] && s.loops[i]->start_sample_offset == -1 && !r.loops[i]))
                        return fail("more than 8 loops: rejected or kept unchanged");
                return true;
            }
            if (r.loops.size() != 8)
                return fail("padded to 8 slots");
            for (size_t i = 0; i < 8; ++i)
            {
                std::optional<dj::loop> e = i < s.loops.size() ? s.loops[i] : std::nullopt;
                if (loop_eq(e, r.loops[i]))
                    continue;
                if (!v2 && e && e->start_sample_offset == -1 && !r.loops[i])
                    continue;  // reserved empty-slot encoding (1.x)
                why = "loops slot " + std::to_string(i) + ": written " + render_snapshot_field(s, f) +
                      ", read back " + render_snapshot_field(r, f);
                return false;
            }
            return true;
        }
        case F_WAVEFORM:
        {
            if (!v2)
            {
                if (s.waveform == r.waveform)
                    return true;
                if (!setter && (!s.sample_rate || !s.sample_count))
                    return true;  // not representable without rate and count
                return fail("exact, including opacity");
            }
            if (s.waveform.empty())
                return r.waveform.empty() || fail("empty");
            std::optional<unsigned long long> cnt = setter ? r.sample_count : s.sample_count;
            std::optional<double> rate = setter ? r.sample_rate : s.sample_rate;
            if (!cnt || !rate)
            {
                cnt = cnt.value_or(0);
                rate = rate.value_or(0);
            }
            auto ext = eng::calculate_overview_waveform_extents(*cnt, *rate);
            if (ext.size == 0 && r.waveform.empty())
                return true;  // no quantisable audio: an empty overview is acceptable
            if (r.waveform.size() != 1024)
                return fail("1024-point overview");
            for (size_t i = 0; i < 1024; ++i)
            {
                auto e = s.waveform[s.waveform.size() * (2 * i + 1) / 2048];
                auto& g = r.waveform[i];
                if (g.low.value != e.low.value || g.mid.value != e.mid.value ||
                    g.high.value != e.high.value || g.low.opacity != 255 ||
                    g.mid.opacity != 255 || g.high.opacity != 255)
                    return fail("1024-point resampling, opacity 255");
            }
            return true;
        }
    }
    return true;
}

void World::check_roundtrip(const dj::track_snapshot& written, dj::track& t,
                            const char* opname, bool)
{
    dj::track_snapshot r1;
    Outcome o = call(FaultSpec{}, [&] { r1 = t.snapshot(); });
    std::string base = std::string("C01|") + opname + "|" + fam() + "|";
    if (o.threw)
    {
        report("C01", base + "snapshot-throws", "snapshot() after an accepted write threw " + o.exc + ": " + o.what);
        report("C03", std::string("C03|") + opname + "|" + fam() + "|stored-but-undecodable",
               "the write was accepted but the stored performance data cannot be decoded: " + o.exc + ": " + o.what);
        return;
    }
    for (int f = 0; f < F_COUNT; ++f)
    {
        std::string why;
        if (!field_rule(f, written, r1, false, why))
        {
            report("C01", base + "field:" + field_name(f), why);
            // fields that live inside a performance-data blob: the codec did not
            // return what it was given (C03)
            bool blob_backed = f == F_BEATGRID || f == F_HOT_CUES || f == F_LOOPS || f == F_MAIN_CUE ||
                               f == F_AVERAGE_LOUDNESS || f == F_SAMPLE_RATE || f == F_SAMPLE_COUNT ||
                               (f == F_WAVEFORM && !v2) || (f == F_KEY && !v2);
            if (blob_backed)
                report("C03", std::string("C03|") + opname + "|" + fam() + "|codec:" + field_name(f), why);
        }
    }
    probes.hit("codec_roundtrip_checked");
    // fixed point: writing the read-back snapshot again changes nothing
    Outcome o2 = call(FaultSpec{}, [&] { t.update(r1); });
    if (o2.threw)
    {
        report("C01", base + "rewrite-rejected",
               "writing back the snapshot just read threw " + o2.exc + ": " + o2.what);
        return;
    }
    dj::track_snapshot r2;
    Outcome o3 = call(FaultSpec{}, [&] { r2 = t.snapshot(); });
    if (o3.threw)
    {
        report("C01", base + "snapshot-throws", "snapshot() after rewrite threw " + o3.exc);
        return;
    }
    probes.hit("fixed_point_checked");
    auto f1 = render_snapshot(r1), f2 = render_snapshot(r2);
    for (size_t i = 0; i < f1.size(); ++i)
        if (f1[i].second != f2[i].second)
            report("C01", base + "fixed-point:" + f1[i].first,
                   "not a fixed point: " + f1[i].first + " read " + f1[i].second +
                       ", after writing it back read " + f2[i].second);
    if (!(r1 == r2) && f1 == f2)
    {
        // operator== differs only where bit patterns agree (NaN); not reported
    }
}

static std::string first_diff_line(const std::string& s1, const std::string& s2)
{
    size_t i = 0;
    while (i < s1.size() && i < s2.size() && s1[i] == s2[i])
        ++i;
    size_t ls = s1.rfind('\n', i ? i - 1 : 0);
    ls = ls == std::string::npos ? 0 : ls + 1;
    size_t e1 = s1.find('\n', i), e2 = s2.find('\n', i);
    std::string l1 = ls < s1.size() ? s1.substr(ls, (e1 == std::string::npos ? s1.size() : e1) - ls) : "<end>";
    std::string l2 = ls < s2.size() ? s2.substr(ls, (e2 == std::string::npos ? s2.size() : e2) - ls) : "<end>";
    return "before: [" + l1 + "] after: [" + l2 + "]";
}

void World::check_purity_begin()
{
    pm_writes = g_disk.lib_writes;
    pm_trunc = g_disk.lib_truncates;
    pm_del = g_disk.lib_deletes;
    pm_changes = g_taps.total_changes();
    pm_hash = g_disk.image_hash(false);
    // a journal left by a failed call whose rollback could not complete (device fault that persisted): the next access of
    // that file - reading included - plays it back.  That recovery restores the content the database had; it is SQLite's
    // crash recovery, not a modification by the observing call, and the byte-level monitor cannot tell the two apart
    pm_hot_journal = false;
    for (auto& kv : g_disk.files)
        if (kv.first.size() > 8 && kv.first.compare(kv.first.size() - 8, 8, "-journal") == 0 && !kv.second->bytes.empty())
            pm_hot_journal = true;
}

void World::check_purity_end(const char* what)
{
    std::string base = "C16|" + std::string(what) + "|" + fam() + "|";
    if (pm_hot_journal)
    {
        probes.hit("purity_block_skipped_recovery_pending");
        return;
    }
    if (g_disk.lib_writes != pm_writes || g_disk.lib_truncates != pm_trunc)
        report("C16", base + "disk-write", "observing calls wrote to the database files");
    if (g_taps.total_changes() != pm_changes)
        report("C16", base + "total-changes",
               "observing calls changed rows (sqlite3_total_changes moved by " +
                   std::to_string(g_taps.total_changes() - pm_changes) + ")");
    if (g_disk.image_hash(false) != pm_hash)
        report("C16", base + "image-changed", "database file content changed during observation");
}

// The other observing operations the statement lists: verify(), database_exists()
// with the library open, and the read side of the 2.x table API.
void World::purity_extras()
{
    if (!db)
        return;
    check_purity_begin();
    Outcome v = call(FaultSpec{}, [&] { db->verify(); });
    check_purity_end("verify");
    if (v.threw)
        probes.hit("verify_threw_in_purity_block");
    if (plan.cfg.on_disk)
    {
        check_purity_begin();
        bool ex = false;
        Outcome o = call(FaultSpec{}, [&] { ex = eng::database_exists(api_dir()); });
        check_purity_end("database_exists");
        if (!o.threw && !ex)
            report("C16", "C16|database_exists|" + fam() + "|false-while-open", "database_exists() is false for the library that is open");
        probes.hit("purity_database_exists");
    }
    if (v2 && tstate && tstate->lib)
    {
        check_purity_begin();
        table_read_all();
        check_purity_end("table-read");
        probes.hit("purity_table_reads");
    }
}

void World::check_getter_vs_snapshot(const TrackObs& t)
{
    if (!t.have_snapshot)
        return;
    for (auto& sf : t.snap)
        for (auto& gf : t.get)
            if (gf.first == sf.first && gf.second != sf.second)
                report("C06", "C06|getter-vs-snapshot|" + fam() + "|" + sf.first,
                       "track " + std::to_string(t.id) + ": getter " + sf.first + "() = " + gf.second + " but snapshot()." + sf.first +
                           " = " + sf.second);
}

void World::after_step(const StepEffect& e)
{
    log.str(e.out.threw ? "threw:" + e.out.exc : "ok");
    gate_log.str(e.out.threw ? "threw:" + e.out.exc : "ok");
    last_call.valid = true;
    last_call.threw = e.out.threw;
    last_call.fault_fired = e.out.fault_fired;
    last_call.stmts = e.out.stmts;
    last_call.ticks = e.out.ticks;
    last_call.mallocs = e.out.mallocs;
    last_call.vfs = e.out.vfs;
    last_call.opname = e.op;
    if (!db || stop)
        return;
    bool faulted = e.out.fault_fired;
    if (faulted)
        probes.hit("fault_fired_in_step");
    // C14: a statement error must surface as an exception
    if (faulted && !e.out.threw && e.out.step_errors > 0)
        report("C14", "C14|" + e.op + "|" + fam() + "|error-swallowed|" + fault_site(e.fault),
               "a statement failed inside " + e.op + " but the call returned normally");
    if (!faulted && e.out.step_errors > 0)
    {
        // a statement of the call failed for real (constraint violation, ...) without any injected fault
        probes.hit("natural_stmt_error");
        if (!e.out.threw)
            report("C14", "C14|" + e.op + "|" + fam() + "|error-swallowed|natural",
                   "a statement failed inside " + e.op + " (no fault injected) but the call returned normally");
    }
    bool purity = check(CK_PURITY) && !faulted && e.out.step_errors == 0;
    if (purity)
        check_purity_begin();
    FullObs cur = observe();
    if (purity)
    {
        check_purity_end("observe");
        // second observation with the clock moved: answers must be identical
        g_sim_clock += 977;
        FullObs again = observe();
        check_purity_end("observe2");
        std::string a = cur.serialize(), b = again.serialize();
        if (a != b)
            report("C16", "C16|observe|" + fam() + "|answers-differ",
                   "two consecutive observations differ: " + first_diff_line(a, b));
        purity_extras();
        probes.hit("purity_checked");
    }
    if (check(CK_MODEL) && !(e.out.threw && faulted) && !e.raw)
        check_model(cur);
    if (have_prev && (check(CK_DIFF) || faulted) && !(e.raw && !e.expect_unchanged))
    {
        if (e.expect_unchanged)
        {
            std::string a = prev.serialize(), b = cur.serialize();
            // only faults that SQLite can report after its commit point (I/O, interrupt, allocation) may leave the
            // fault-free post-state behind; a statement refused with BUSY (F1, F9) has committed nothing
            bool post_commit = faulted && (e.fault.kind == FK_TICK || e.fault.kind == FK_VFS || e.fault.kind == FK_MALLOC) &&
                               have_accept_post && cur.hash() == accept_post_hash;
            if (a != b && !post_commit)
            {
                bool by_fault = faulted || e.out.step_errors > 0;
                std::string prop = by_fault ? "C14" : e.prop;
                report(prop,
                       prop + "|" + e.op + "|" + fam() +
                           (by_fault ? "|partial-update|" + fault_site(e.fault) : "|rejected-but-changed"),
                       e.op + " threw " + e.out.exc + " but the observable state changed: " + first_diff_line(a, b));
                if (faulted && (e.fault.kind == FK_TICK || e.fault.kind == FK_VFS || e.fault.kind == FK_MALLOC) &&
                    plan.cfg.profile.compare(0, 6, "atomic") != 0)
                {
                    // a real-path fault inside an ordinary history left a state that is neither before nor after: the
                    // world is outside every model (half a two-file commit, ...).  It has been reported (C14); whatever
                    // the other oracles would say about this state and its successors is a consequence, not a finding.
                    stop = true;
                    stop_reason = "partial update after a real-path fault: the world left the model";
                    prev = cur;
                    have_prev = true;
                    return;
                }
            }
            else if (faulted)
                probes.hit("atomic_failure_confirmed");
        }
        else
        {
            for (auto& kv : cur.track)
            {
                auto pit = prev.track.find(kv.first);
                if (pit == prev.track.end())
                    continue;
                auto& p = pit->second;
                auto& c = kv.second;
                bool target = kv.first == e.track;
                bool all = target && e.fields.count("*");
                if (all)
                    continue;
                auto cmp = [&](const Fields& pf, const Fields& cf, const char* kind) {
                    for (size_t i = 0; i < pf.size() && i < cf.size(); ++i)
                    {
                        if (pf[i].second == cf[i].second)
                            continue;
                        if (target && e.fields.count(pf[i].first))
                            continue;
                        if (pf[i].first == "containing_crates")
                            continue;  // decided by the membership model (C08)
                        std::string prop = e.prop.empty() ? "C06" : e.prop;
                        if (e.op.compare(0, 4, "set_") == 0 && e.prop == "C06")
                            prop = "C06";
                        report(prop,
                               prop + "|" + e.op + "|" + fam() + (target ? "|other-field:" : "|other-track:") + pf[i].first,
                               e.op + " on track " + std::to_string(e.track) + " changed " + kind + "." + pf[i].first +
                                   " of track " + std::to_string(kv.first) + " from " + pf[i].second + " to " + cf[i].second);
                    }
                };
                if (p.valid != c.valid && !target)
                    report(e.prop, e.prop + "|" + e.op + "|" + fam() + "|other-track:valid", "validity of another track changed");
                cmp(p.snap, c.snap, "snapshot");
                cmp(p.get, c.get, "getter");
            }
        }
    }
    // C06: getter and snapshot field agree
    if (check(CK_DIFF) && !faulted && !e.raw)
        for (auto& kv : cur.track)
            check_getter_vs_snapshot(kv.second);
    for (auto id : model.tracks)
    {
        if (e.raw)
            break;
        auto it = cur.track.find(id);
        if (it != cur.track.end() && !it->second.have_snapshot && !stop)
        {
            stop = true;
            stop_reason = "live track " + std::to_string(id) + " is no longer observable";
            if (!faulted)
                report(e.prop.empty() ? "C01" : e.prop,
                       (e.prop.empty() ? "C01" : e.prop) + "|" + e.op + "|" + fam() + "|track-unobservable",
                       "after " + e.op + " snapshot() of live track " + std::to_string(id) + " throws " +
                           (it->second.snap.empty() ? "" : it->second.snap[0].second));
        }
    }
    // the call failed and the public observation is exactly what it was: the world is still in the model
    const bool failed_atomically = faulted && e.out.threw && have_prev && prev.hash() == cur.hash();
    prev = cur;
    have_prev = true;
    uint64_t h = cur.hash();
    state_hashes.insert(h);
    log.u64(h);
    // (also when this very step made a live track unobservable: the raw bytes then tell what was stored)
    // (after a FAILED call too - fault fired, call threw, world still in the model: the stored database must be a
    //  well-formed library whatever the failure left in the pager; the auditor's own connection plays back a hot journal
    //  exactly as Engine would)
    if (check(CK_AUDIT) && (!faulted || (failed_atomically && !stop)))
    {
        if (faulted)
            probes.hit("audit_after_failed_call");
        audit();
    }
}

// ------------------------------------------------------------------ name lookups
void World::check_name_lookups(const FullObs& o)
{
    std::string F = fam();
    for (auto& l : o.name_lookups)
    {
        if (!l.result.empty() && l.result[0] == '!')
        {
            report("C07", "C07|" + l.kind + "|" + F + "|threw", l.kind + " threw " + l.result);
            continue;
        }
        if (l.kind == "crates_by_name")
        {
            std::vector<int64_t> exp;
            for (auto& kv : model.crates)
                if (kv.second.name == l.name)
                    exp.push_back(kv.first);
            if (l.result != ids_str(exp))
                report("C07", "C07|crates_by_name|" + F + "|wrong-set",
                       "crates_by_name = [" + l.result + "], expected [" + ids_str(exp) + "]");
        }
        else
        {
            int64_t parent = l.kind == "root_crate_by_name" ? 0 : l.crate;
            if (parent && !model.crates.count(parent))
                continue;
            std::vector<int64_t> cands;
            for (auto& kv : model.crates)
                if (kv.second.name == l.name && kv.second.parent == parent)
                    cands.push_back(kv.first);
            bool ok;
            if (cands.empty())
                ok = l.result == "-";
            else
            {
                ok = false;
                for (auto c : cands)
                    if (l.result == std::to_string(c))
                        ok = true;
            }
            if (!ok)
                report("C07", "C07|" + l.kind + "|" + F + "|wrong",
                       l.kind + "(" + (parent ? std::to_string(parent) + ", " : std::string()) + "name) = " + l.result +
                           ", expected one of [" + ids_str(cands) + "]");
        }
    }
}

// ------------------------------------------------------------------ model check
void World::check_model(const FullObs& o)
{
    std::string F = fam();
    auto as_set = [](std::vector<int64_t> v) {
        std::sort(v.begin(), v.end());
        return v;
    };
    auto has_dups = [](std::vector<int64_t> v) {
        std::sort(v.begin(), v.end());
        return std::adjacent_find(v.begin(), v.end()) != v.end();
    };
    // ---- tracks list (C08: database::tracks)
    if (!o.tracks_ok)
        report("C08", "C08|tracks|" + F + "|threw", "database::tracks() threw " + o.tracks);
    else
    {
        std::vector<int64_t> exp(model.tracks.begin(), model.tracks.end());
        if (as_set(o.tracks_v) != exp || has_dups(o.tracks_v))
            report("C08", "C08|tracks|" + F + "|wrong-set",
                   "database::tracks() = [" + o.tracks + "], expected [" + ids_str(exp) + "]");
    }
    for (auto id : model.dead_tracks)
        for (auto& l : o.lookups)
            if (l.first == "track_by_id:" + std::to_string(id) && l.second != "-")
                report("C08", "C08|track_by_id|" + F + "|removed-found", "track_by_id finds removed track " + std::to_string(id));
    for (auto id : model.tracks)
        for (auto& l : o.lookups)
            if (l.first == "track_by_id:" + std::to_string(id) && l.second != std::to_string(id))
                report("C08", "C08|track_by_id|" + F + "|live-not-found", "track_by_id(" + std::to_string(id) + ") = " + l.second);

    // ---- crates() exactly once each (C07)
    if (!o.crates_ok)
        report("C07", "C07|crates|" + F + "|threw", "database::crates() threw " + o.crates);
    else
    {
        std::vector<int64_t> exp;
        for (auto& kv : model.crates)
            exp.push_back(kv.first);
        if (has_dups(o.crates_v))
            report("C07", "C07|crates|" + F + "|duplicate", "crates() lists a crate twice: [" + o.crates + "]");
        else if (as_set(o.crates_v) != exp)
        {
            bool extra_dead = false;
            for (auto id : o.crates_v)
                if (model.dead_crates.count(id))
                    extra_dead = true;
            report("C07", "C07|crates|" + F + (extra_dead ? "|removed-listed" : "|wrong-set"),
                   "crates() = [" + o.crates + "], expected [" + ids_str(exp) + "]");
        }
    }
    // ---- roots
    if (!o.roots_ok)
        report("C07", "C07|root_crates|" + F + "|threw", "root_crates() threw " + o.roots);
    else
    {
        auto exp = model.children_of(0);
        if (as_set(o.roots_v) != as_set(exp) || has_dups(o.roots_v))
        {
            report("C07", "C07|root_crates|" + F + "|wrong-set",
                   "root_crates() = [" + o.roots + "], expected set [" + ids_str(as_set(exp)) + "]");
            if (v2)
                report("C09", "C09|root_crates|v2|lost-or-duplicated",
                       "root_crates() = [" + o.roots + "], expected members [" + ids_str(as_set(exp)) + "]");
        }
        else if (v2)
        {
            auto& ord = model.order[0];
            auto fe = free_elem.find(0);
            if (fe != free_elem.end())
            {
                auto a = o.roots_v, b = ord;
                a.erase(std::remove(a.begin(), a.end(), fe->second), a.end());
                b.erase(std::remove(b.begin(), b.end(), fe->second), b.end());
                if (a != b)
                    report("C09", "C09|root_crates|v2|order",
                           "root order [" + o.roots + "] does not preserve the previous order [" + ids_str(b) + "]");
                ord = o.roots_v;
            }
            else if (o.roots_v != ord)
                report("C09", "C09|root_crates|v2|order",
                       "root_crates() = [" + o.roots + "], expected order [" + ids_str(ord) + "]");
        }
    }
    // ---- per crate
    for (auto& kv : model.crates)
    {
        int64_t id = kv.first;
        auto it = o.crate.find(id);
        if (it == o.crate.end())
            continue;  // already reported through crates()
        auto& c = it->second;
        std::string ids = std::to_string(id);
        if (c.valid != "1")
            report("C07", "C07|is_valid|" + F + "|live-invalid", "live crate " + ids + " is_valid = " + c.valid);
        if (!c.name_ok)
            report("C07", "C07|name|" + F + "|threw", "name() of live crate " + ids + " threw " + c.name);
        else if (c.raw_name != kv.second.name)
            report("C07", "C07|name|" + F + "|wrong", "crate " + ids + " name() differs from the name given");
        if (!c.parent_ok)
            report("C07", "C07|parent|" + F + "|threw", "parent() of crate " + ids + " threw " + c.parent);
        else
        {
            int64_t got = c.parent_v ? *c.parent_v : 0;
            if (got != kv.second.parent)
                report("C07", "C07|parent|" + F + (got && !model.crates.count(got) ? "|dead-parent" : "|wrong"),
                       "crate " + ids + " parent() = " + c.parent + ", expected " +
                           (kv.second.parent ? std::to_string(kv.second.parent) : std::string("-")));
        }
        auto kids = model.children_of(id);
        if (!c.children_ok)
            report("C07", "C07|children|" + F + "|threw", "children() of crate " + ids + " threw " + c.children);
        else if (as_set(c.children_v) != as_set(kids) || has_dups(c.children_v))
        {
            bool is_desc = as_set(c.children_v) == model.descendants_of(id);
            report("C07", "C07|children|" + F + (is_desc ? "|returns-descendants" : "|wrong-set"),
                   "children(" + ids + ") = [" + c.children + "], expected set [" + ids_str(as_set(kids)) + "]");
            if (v2)
                report("C09", "C09|children|v2|lost-or-duplicated",
                       "children(" + ids + ") = [" + c.children + "], expected members [" + ids_str(as_set(kids)) + "]");
        }
        else if (v2)
        {
            auto& ord = model.order[id];
            auto fe = free_elem.find(id);
            if (fe != free_elem.end())
            {
                auto a = c.children_v, b = ord;
                a.erase(std::remove(a.begin(), a.end(), fe->second), a.end());
                b.erase(std::remove(b.begin(), b.end(), fe->second), b.end());
                if (a != b)
                    report("C09", "C09|children|v2|order",
                           "children order [" + c.children + "] does not preserve the previous order [" + ids_str(b) + "]");
                ord = c.children_v;
            }
            else if (c.children_v != ord)
                report("C09", "C09|children|v2|order",
                       "children(" + ids + ") = [" + c.children + "], expected order [" + ids_str(ord) + "]");
        }
        auto desc = model.descendants_of(id);
        if (!c.descendants_ok)
            report("C07", "C07|descendants|" + F + "|threw", "descendants() of crate " + ids + " threw " + c.descendants);
        else if (c.descendants_v != desc)
        {
            bool is_kids = c.descendants_v == as_set(kids);
            report("C07", "C07|descendants|" + F + (is_kids ? "|returns-children" : "|wrong-set"),
                   "descendants(" + ids + ") = [" + c.descendants + "], expected [" + ids_str(desc) + "]");
        }
        // membership (C08), order (C09)
        auto mit = model.members.find(id);
        std::vector<int64_t> mem = mit == model.members.end() ? std::vector<int64_t>{} : mit->second;
        if (!c.tracks_ok)
            report("C08", "C08|crate.tracks|" + F + "|threw", "tracks() of crate " + ids + " threw " + c.tracks);
        else if (has_dups(c.tracks_v))
            report("C08", "C08|crate.tracks|" + F + "|duplicate", "crate " + ids + " lists a track twice: [" + c.tracks + "]");
        else if (as_set(c.tracks_v) != as_set(mem))
        {
            bool dead = false;
            for (auto t : c.tracks_v)
                if (model.dead_tracks.count(t))
                    dead = true;
            report("C08", "C08|crate.tracks|" + F + (dead ? "|removed-track-listed" : "|wrong-set"),
                   "crate " + ids + " tracks() = [" + c.tracks + "], expected set [" + ids_str(as_set(mem)) + "]");
            if (v2)
                report("C09", "C09|crate.tracks|v2|lost-or-duplicated",
                       "crate " + ids + " tracks() = [" + c.tracks + "], expected entries [" + ids_str(mem) + "]");
        }
        else if (v2 && c.tracks_v != mem)
            report("C09", "C09|crate.tracks|v2|order",
                   "crate " + ids + " tracks() = [" + c.tracks + "], expected insertion order [" + ids_str(mem) + "]");
    }
    free_elem.clear();
    // ---- removed crates are never returned (C07)
    for (auto id : model.dead_crates)
    {
        for (auto& l : o.lookups)
            if (l.first == "crate_by_id:" + std::to_string(id) && l.second != "-")
                report("C07", "C07|crate_by_id|" + F + "|removed-found", "crate_by_id finds removed crate " + std::to_string(id));
        auto it = o.crate.find(id);
        if (it != o.crate.end() && it->second.valid != "0")
            report("C15", "C15|crate.is_valid|" + F + "|stale-valid",
                   "handle to removed crate " + std::to_string(id) + " reports is_valid = " + it->second.valid);
    }
    for (auto id : model.dead_tracks)
    {
        auto it = o.track.find(id);
        if (it != o.track.end() && it->second.valid != "0")
            report("C15", "C15|track.is_valid|" + F + "|stale-valid",
                   "handle to removed track " + std::to_string(id) + " reports is_valid = " + it->second.valid);
    }
    for (auto& kv : model.crates)
        for (auto& l : o.lookups)
            if (l.first == "crate_by_id:" + std::to_string(kv.first) && l.second != std::to_string(kv.first))
                report("C07", "C07|crate_by_id|" + F + "|live-not-found", "crate_by_id(" + std::to_string(kv.first) + ") = " + l.second);
    // ---- by-name lookups (C07)
    check_name_lookups(o);
    // ---- containing_crates is the converse relation (1.x)
    if (!v2)
        for (auto tid : model.tracks)
        {
            auto it = o.track.find(tid);
            if (it == o.track.end())
                continue;
            std::vector<int64_t> exp;
            for (auto& kv : model.members)
                if (std::find(kv.second.begin(), kv.second.end(), tid) != kv.second.end())
                    exp.push_back(kv.first);
            std::sort(exp.begin(), exp.end());
            for (auto& g : it->second.get)
                if (g.first == "containing_crates" && g.second != ids_str(exp))
                    report("C08", "C08|containing_crates|" + F + "|wrong-set",
                           "track " + std::to_string(tid) + " containing_crates() = [" + g.second + "], expected [" + ids_str(exp) + "]");
        }
}

}  // namespace djsim
