// Step executor for actor L (public API) and X (environment).
#include <algorithm>

#include <sqlite3.h>
#include <sys/wait.h>
#include <unistd.h>

#include <cstring>

#include "world.hpp"
#include "tstate.hpp"

namespace djsim
{
static bool name_invalid(const std::string& n)
{
    return n.empty() || n.find(';') != std::string::npos;
}

void World::apply_setter(dj::track& t, int field, int slot, const dj::track_snapshot& d,
                         bool val)
{
    switch (field)
    {
        case F_ALBUM: (val && d.album) ? t.set_album(*d.album) : t.set_album(d.album); break;
        case F_ARTIST: (val && d.artist) ? t.set_artist(*d.artist) : t.set_artist(d.artist); break;
        case F_AVERAGE_LOUDNESS:
            (val && d.average_loudness) ? t.set_average_loudness(*d.average_loudness)
                                        : t.set_average_loudness(d.average_loudness);
            break;
        case F_BEATGRID: t.set_beatgrid(d.beatgrid); break;
        case F_BITRATE: (val && d.bitrate) ? t.set_bitrate(*d.bitrate) : t.set_bitrate(d.bitrate); break;
        case F_BPM: (val && d.bpm) ? t.set_bpm(*d.bpm) : t.set_bpm(d.bpm); break;
        case F_COMMENT: (val && d.comment) ? t.set_comment(*d.comment) : t.set_comment(d.comment); break;
        case F_COMPOSER: (val && d.composer) ? t.set_composer(*d.composer) : t.set_composer(d.composer); break;
        case F_DURATION: (val && d.duration) ? t.set_duration(*d.duration) : t.set_duration(d.duration); break;
        case F_GENRE: (val && d.genre) ? t.set_genre(*d.genre) : t.set_genre(d.genre); break;
        case F_HOT_CUES: t.set_hot_cues(d.hot_cues); break;
        case F_KEY: (val && d.key) ? t.set_key(*d.key) : t.set_key(d.key); break;
        case F_LAST_PLAYED_AT:
            (val && d.last_played_at) ? t.set_last_played_at(*d.last_played_at)
                                      : t.set_last_played_at(d.last_played_at);
            break;
        case F_LOOPS: t.set_loops(d.loops); break;
        case F_MAIN_CUE: t.set_main_cue(d.main_cue); break;
        case F_PUBLISHER: (val && d.publisher) ? t.set_publisher(*d.publisher) : t.set_publisher(d.publisher); break;
        case F_RATING: (val && d.rating) ? t.set_rating(*d.rating) : t.set_rating(d.rating); break;
        case F_RELATIVE_PATH: t.set_relative_path(*d.relative_path); break;
        case F_SAMPLE_COUNT:
            (val && d.sample_count) ? t.set_sample_count(*d.sample_count)
                                    : t.set_sample_count(d.sample_count);
            break;
        case F_SAMPLE_RATE:
            (val && d.sample_rate) ? t.set_sample_rate(*d.sample_rate) : t.set_sample_rate(d.sample_rate);
            break;
        case F_TITLE: (val && d.title) ? t.set_title(*d.title) : t.set_title(d.title); break;
        case F_TRACK_NUMBER:
            (val && d.track_number) ? t.set_track_number(*d.track_number)
                                    : t.set_track_number(d.track_number);
            break;
        case F_WAVEFORM: t.set_waveform(d.waveform); break;
        case F_YEAR: (val && d.year) ? t.set_year(*d.year) : t.set_year(d.year); break;
        case F_HOT_CUE_AT:
        {
            std::optional<dj::hot_cue> c;
            for (auto& x : d.hot_cues)
                if (x)
                {
                    c = x;
                    break;
                }
            (val && c) ? t.set_hot_cue_at(slot, *c) : t.set_hot_cue_at(slot, c);
            break;
        }
        case F_LOOP_AT:
        {
            std::optional<dj::loop> l;
            for (auto& x : d.loops)
                if (x)
                {
                    l = x;
                    break;
                }
            (val && l) ? t.set_loop_at(slot, *l) : t.set_loop_at(slot, l);
            break;
        }
        default: break;
    }
}

void World::exec_track_op(const Step& s)
{
    auto arg = [&](size_t i) { return i < s.a.size() ? s.a[i] : 0; };
    StepEffect e;
    e.op = s.op;
    e.fault = s.fault;
    // one write in twelve re-uses the path of another live track: where the schema makes paths unique the
    // call then fails for real in the middle of its statements (no injected fault) and must change nothing
    auto maybe_collide = [&](dj::track_snapshot& snap, int64_t self) {
        if ((s.vseed >> 20) % 12 != 0)
            return;
        for (auto& kv : prev.track)
            if (kv.first != self && kv.second.have_snapshot && kv.second.snapshot.relative_path && model.tracks.count(kv.first))
            {
                snap.relative_path = kv.second.snapshot.relative_path;
                probes.hit("path_collision_attempted");
                return;
            }
    };
    if (s.op == "create_track")
    {
        auto snap = gen_snapshot(s.vseed, s.size, plan.cfg.gf, ++uniq);
        maybe_collide(snap, 0);
        std::optional<dj::track> t;
        e.prop = "C01";
        e.out = call(s.fault, [&] { t = db->create_track(snap); });
        note("create_track path=" + (snap.relative_path ? *snap.relative_path : std::string("<none>")) +
             (e.out.threw ? " -> threw " + e.out.exc + ": " + e.out.what : " -> id " + std::to_string(t->id())));
        if (!e.out.threw)
        {
            int64_t id = t->id();
            if (model.tracks.count(id))
                report("C01", "C01|create_track|" + fam() + "|id-collision",
                       "new track got the id of a live track: " + std::to_string(id));
            if (model.dead_tracks.erase(id))
                for (auto& sl : tracks)
                    if (sl.id == id)
                        sl.h.reset();
            tracks.push_back({t, id, true});
            model.tracks.insert(id);
            model.issued_tracks.insert(id);
            e.track = id;
            e.fields = {"*"};
            last_written[id] = snap;
            probes.hit("create_track_ok");
            if (check(CK_ROUNDTRIP) && s.fault.kind == FK_NONE)
                check_roundtrip(snap, *t, "create_track", true);
        }
        else
        {
            e.expect_unchanged = true;
            probes.hit("create_track_rejected");
        }
        after_step(e);
        return;
    }
    int idx = pick_live_track(arg(0));
    if (idx < 0)
    {
        note(s.op + " skipped: no live track");
        return;
    }
    auto& slot = tracks[idx];
    e.track = slot.id;
    if (s.op == "update")
    {
        auto snap = gen_snapshot(s.vseed, s.size, plan.cfg.gf, ++uniq);
        maybe_collide(snap, slot.id);
        e.prop = "C01";
        e.out = call(s.fault, [&] { slot.h->update(snap); });
        note("update track " + std::to_string(slot.id) + (e.out.threw ? " -> threw " + e.out.exc + ": " + e.out.what : " -> ok"));
        if (!e.out.threw)
        {
            e.fields = {"*"};
            unanalysed.erase(slot.id);
            last_written[slot.id] = snap;
            probes.hit("update_ok");
            if (check(CK_ROUNDTRIP) && s.fault.kind == FK_NONE)
                check_roundtrip(snap, *slot.h, "update", false);
        }
        else
        {
            e.expect_unchanged = true;
            probes.hit("update_rejected");
        }
        after_step(e);
        return;
    }
    if (s.op == "rewrite")
    {
        // write back the snapshot just read: must be a no-op (C01 fixed point)
        e.prop = "C01";
        dj::track_snapshot r;
        bool got = false;
        e.out = call(s.fault, [&] {
            r = slot.h->snapshot();
            got = true;
            slot.h->update(r);
        });
        note("rewrite track " + std::to_string(slot.id) + (e.out.threw ? " -> threw " + e.out.exc : " -> ok"));
        if (e.out.threw)
            e.expect_unchanged = true;
        else if (e.out.fault_fired)
            ;  // a fired fault that did not surface is reported by after_step (error-swallowed)
        else
        {
            // the snapshot just read must be a fixed point of update()
            e.fields = {"*"};
            try
            {
                auto r2 = slot.h->snapshot();
                auto f1 = render_snapshot(r), f2 = render_snapshot(r2);
                for (size_t i = 0; i < f1.size(); ++i)
                    if (f1[i].second != f2[i].second)
                    {
                        // 1.x derives an absent BPM from the first grid segment: the same documented
                        // alternative the field table accepts for any snapshot write
                        std::string why;
                        if (f1[i].first == "bpm" && !v2 && !r.bpm && field_rule(F_BPM, r, r2, false, why))
                            continue;
                        // a snapshot of a state the second party produced (no performance row) is an ordinary input:
                        // the statement's normalisations (padding to eight slots, ...) apply to it
                        if (unanalysed.count(slot.id) && field_rule((int)i, r, r2, false, why))
                            continue;
                        report("C01", "C01|rewrite|" + fam() + "|fixed-point:" + f1[i].first,
                               "writing a track's own snapshot back changed " + f1[i].first + " from " +
                                   f1[i].second + " to " + f2[i].second);
                    }
                probes.hit("fixed_point_checked");
                unanalysed.erase(slot.id);
            }
            catch (const std::exception& ex)
            {
                report("C01", "C01|rewrite|" + fam() + "|snapshot-throws", ex.what());
            }
        }
        (void)got;
        after_step(e);
        return;
    }
    if (s.op == "remove_track")
    {
        e.prop = "C08";
        e.out = call(s.fault, [&] { db->remove_track(*slot.h); });
        note("remove_track " + std::to_string(slot.id) + (e.out.threw ? " -> threw " + e.out.exc : " -> ok"));
        if (!e.out.threw)
        {
            slot.live = false;
            model.tracks.erase(slot.id);
            model.dead_tracks.insert(slot.id);
            for (auto& kv : model.members)
                kv.second.erase(std::remove(kv.second.begin(), kv.second.end(), slot.id), kv.second.end());
            e.fields = {"*"};
            probes.hit("remove_track_ok");
        }
        else
            e.expect_unchanged = true;
        after_step(e);
        return;
    }
    if (s.op == "set")
    {
        int field = (int)arg(1);
        int slot_idx = (int)(((uint64_t)arg(2)) % 8);
        bool val = (arg(3) & 1) != 0;
        if (field == F_FILE_BYTES)
            field = F_TITLE;
        auto donor = gen_snapshot(s.vseed, std::max(1, s.size), plan.cfg.gf, ++uniq);
        if (arg(4) == 1)
        {
            // a clearing call: every optional absent, every list empty (rich generator settings never produce one)
            auto path = donor.relative_path;
            donor = dj::track_snapshot{};
            donor.relative_path = path;
            probes.hit("setter_clearing_call");
        }
        if (!donor.relative_path)
            donor.relative_path = "set/path" + std::to_string(uniq) + ".mp3";
        if (field == F_RELATIVE_PATH)
            maybe_collide(donor, slot.id);
        e.prop = "C06";
        std::string fname = field_name(field);
        e.op = "set_" + fname;
        e.out = call(s.fault, [&] { apply_setter(*slot.h, field, slot_idx, donor, val); });
        note("set " + fname + " on track " + std::to_string(slot.id) +
             (field >= F_HOT_CUE_AT ? " slot " + std::to_string(slot_idx) : "") +
             (e.out.threw ? " -> threw " + e.out.exc + ": " + e.out.what : " -> ok"));
        op_counts["set:" + fname]++;
        if (e.out.threw)
        {
            e.expect_unchanged = true;
            probes.hit("setter_rejected");
            after_step(e);
            return;
        }
        probes.hit("setter_ok");
        if (field == F_HOT_CUE_AT)
            e.fields = {"hot_cues", "hot_cue_at"};
        else if (field == F_LOOP_AT)
            e.fields = {"loops", "loop_at"};
        else if (field == F_HOT_CUES)
            e.fields = {"hot_cues", "hot_cue_at"};
        else if (field == F_LOOPS)
            e.fields = {"loops", "loop_at"};
        else if (field == F_RELATIVE_PATH)
            e.fields = {"relative_path", "filename", "file_extension"};
        else
            e.fields = {fname};
        // value check (C06: getter returns what was set, under C01's normalisation)
        if (check(CK_DIFF) && s.fault.kind == FK_NONE)
        {
            try
            {
                auto r = slot.h->snapshot();
                std::string why;
                if (field < F_COUNT)
                {
                    if (!field_rule(field, donor, r, true, why))
                        report("C06", "C06|set_" + fname + "|" + fam() + "|value", why);
                }
                else if (field == F_HOT_CUE_AT)
                {
                    std::optional<dj::hot_cue> c;
                    for (auto& x : donor.hot_cues)
                        if (x)
                        {
                            c = x;
                            break;
                        }
                    bool ok = (size_t)slot_idx < r.hot_cues.size() &&
                              (r.hot_cues[slot_idx] == c ||
                               (c && c->sample_offset == -1 && !r.hot_cues[slot_idx]));
                    if (!ok)
                        report("C06", "C06|set_hot_cue_at|" + fam() + "|value",
                               "slot " + std::to_string(slot_idx) + " does not hold the cue just set");
                    auto it = prev.track.find(slot.id);
                    if (it != prev.track.end() && it->second.have_snapshot)
                        for (size_t i = 0; i < 8 && i < r.hot_cues.size() && i < it->second.snapshot.hot_cues.size(); ++i)
                            if ((int)i != slot_idx && !(r.hot_cues[i] == it->second.snapshot.hot_cues[i]))
                                report("C06", "C06|set_hot_cue_at|" + fam() + "|other-slot",
                                       "setting slot " + std::to_string(slot_idx) + " changed slot " + std::to_string(i));
                    if (slot_idx == 0)
                        probes.hit("cue_slot0");
                    if (slot_idx == 7)
                        probes.hit("cue_slot7");
                }
                else if (field == F_LOOP_AT)
                {
                    std::optional<dj::loop> l;
                    for (auto& x : donor.loops)
                        if (x)
                        {
                            l = x;
                            break;
                        }
                    bool ok = (size_t)slot_idx < r.loops.size() &&
                              (r.loops[slot_idx] == l ||
                               (l && l->start_sample_offset == -1 && !r.loops[slot_idx] && !v2));
                    if (!ok)
                        report("C06", "C06|set_loop_at|" + fam() + "|value",
                               "slot " + std::to_string(slot_idx) + " does not hold the loop just set");
                    auto it = prev.track.find(slot.id);
                    if (it != prev.track.end() && it->second.have_snapshot)
                        for (size_t i = 0; i < 8 && i < r.loops.size() && i < it->second.snapshot.loops.size(); ++i)
                            if ((int)i != slot_idx && !(r.loops[i] == it->second.snapshot.loops[i]))
                                report("C06", "C06|set_loop_at|" + fam() + "|other-slot",
                                       "setting slot " + std::to_string(slot_idx) + " changed slot " + std::to_string(i));
                }
            }
            catch (const std::exception& ex)
            {
                report("C06", "C06|set_" + fname + "|" + fam() + "|snapshot-throws",
                       std::string("snapshot() after a successful setter threw: ") + ex.what());
            }
        }
        after_step(e);
        return;
    }
}

void World::exec_crate_op(const Step& s)
{
    auto arg = [&](size_t i) { return i < s.a.size() ? s.a[i] : 0; };
    Rng r(s.vseed ^ 0xC4A7Eull);
    StepEffect e;
    e.op = s.op;
    e.fault = s.fault;
    e.prop = "C07";
    bool allow_invalid = true;
    std::string name = gen_crate_name(r, plan.cfg.gf, allow_invalid);
    auto register_new = [&](const dj::crate& c, int64_t parent, int64_t after_id) {
        int64_t id = c.id();
        if (model.crates.count(id))
        {
            report("C07", "C07|" + s.op + "|" + fam() + "|id-collision",
                   "new crate received the id of a live crate: " + std::to_string(id));
            stop = true;
            stop_reason = "crate id collision";
            return;
        }
        if (model.dead_crates.erase(id))
        {
            probes.hit("crate_id_reused");
            for (auto& sl : crates)
                if (sl.id == id)
                    sl.h.reset();
        }
        crates.push_back({c, id, true});
        model.crates[id] = {id, name, parent};
        model.issued_crates.insert(id);
        auto& ord = model.order[parent];
        if (after_id)
        {
            auto it = std::find(ord.begin(), ord.end(), after_id);
            if (it != ord.end())
                ord.insert(it + 1, id);
            else
                ord.push_back(id);
        }
        else
        {
            ord.push_back(id);  // position free: fixed up from the observation
            free_elem[parent] = id;
        }
    };

    if (s.op == "create_root" || s.op == "create_root_after")
    {
        std::optional<dj::crate> c;
        int after_idx = s.op == "create_root_after" ? pick_live_crate(arg(0)) : -1;
        if (s.op == "create_root_after" && after_idx < 0)
        {
            note(s.op + " skipped: no crate");
            return;
        }
        e.out = call(s.fault, [&] {
            if (after_idx >= 0)
                c = db->create_root_crate_after(name, *crates[after_idx].h);
            else
                c = db->create_root_crate(name);
        });
        note(s.op + " '" + name + "'" + (after_idx >= 0 ? " after " + std::to_string(crates[after_idx].id) : "") +
             (e.out.threw ? " -> threw " + e.out.exc : " -> id " + std::to_string(c->id())));
        if (e.out.threw)
        {
            e.expect_unchanged = true;
            if (name_invalid(name))
                probes.hit("invalid_name_rejected");
        }
        else
        {
            if (name_invalid(name))
                report("C07", "C07|" + s.op + "|" + fam() + "|invalid-name-accepted",
                       "crate created with an invalid name");
            int64_t after_id = 0;
            if (after_idx >= 0 && v2)
            {
                auto& a = model.crates[crates[after_idx].id];
                if (a.parent == 0)
                    after_id = a.id;
                else
                    report("C09", "C09|create_root_after|v2|foreign-after-accepted",
                           "create_root_crate_after accepted a non-root 'after' crate");
            }
            register_new(*c, 0, after_id);
            if (after_id)
                probes.hit("create_after_positioned");
        }
        after_step(e);
        return;
    }
    if (s.op == "create_sub" || s.op == "create_sub_after")
    {
        int pidx = pick_live_crate(arg(0));
        if (pidx < 0)
        {
            note(s.op + " skipped: no crate");
            return;
        }
        int after_idx = s.op == "create_sub_after" ? pick_live_crate(arg(1)) : -1;
        // bias: prefer an actual sibling for 'after'
        if (after_idx >= 0 && (arg(2) & 1))
        {
            auto kids = model.order[crates[pidx].id];
            if (!kids.empty())
            {
                int64_t want = kids[(size_t)((uint64_t)arg(1) % kids.size())];
                for (size_t i = 0; i < crates.size(); ++i)
                    if (crates[i].live && crates[i].id == want && crates[i].h)
                        after_idx = (int)i;
            }
        }
        std::optional<dj::crate> c;
        int64_t pid = crates[pidx].id;
        e.out = call(s.fault, [&] {
            if (after_idx >= 0)
                c = crates[pidx].h->create_sub_crate_after(name, *crates[after_idx].h);
            else
                c = crates[pidx].h->create_sub_crate(name);
        });
        note(s.op + " '" + name + "' under " + std::to_string(pid) +
             (after_idx >= 0 ? " after " + std::to_string(crates[after_idx].id) : "") +
             (e.out.threw ? " -> threw " + e.out.exc : " -> id " + std::to_string(c->id())));
        if (e.out.threw)
            e.expect_unchanged = true;
        else
        {
            if (name_invalid(name))
                report("C07", "C07|" + s.op + "|" + fam() + "|invalid-name-accepted",
                       "crate created with an invalid name");
            int64_t after_id = 0;
            if (after_idx >= 0 && v2)
            {
                auto& a = model.crates[crates[after_idx].id];
                if (a.parent == pid)
                    after_id = a.id;
                else
                    report("C09", "C09|create_sub_after|v2|foreign-after-accepted",
                           "create_sub_crate_after accepted an 'after' crate under another parent");
            }
            register_new(*c, pid, after_id);
            if (after_id)
                probes.hit("create_after_positioned");
            auto d = model.descendants_of(pid);
            int depth = 1;
            for (int64_t p = pid; p; p = model.crates[p].parent)
                ++depth;
            if (depth >= 3)
                probes.hit("forest_depth3");
        }
        after_step(e);
        return;
    }
    int idx = pick_live_crate(arg(0));
    if (idx < 0)
    {
        note(s.op + " skipped: no crate");
        return;
    }
    int64_t id = crates[idx].id;
    if (s.op == "set_name")
    {
        e.out = call(s.fault, [&] { crates[idx].h->set_name(name); });
        note("set_name " + std::to_string(id) + " '" + name + "'" + (e.out.threw ? " -> threw " + e.out.exc : " -> ok"));
        if (e.out.threw)
            e.expect_unchanged = true;
        else
        {
            if (name_invalid(name))
                report("C07", "C07|set_name|" + fam() + "|invalid-name-accepted", "invalid name accepted by set_name");
            model.crates[id].name = name;
            if (!model.descendants_of(id).empty())
                probes.hit("rename_with_descendants");
        }
        after_step(e);
        return;
    }
    if (s.op == "set_parent")
    {
        int pidx = arg(1) < 0 ? -1 : pick_live_crate(arg(1));
        std::optional<dj::crate> p;
        int64_t pid = 0;
        if (pidx >= 0)
        {
            p = *crates[pidx].h;
            pid = crates[pidx].id;
        }
        bool cycle = pid != 0 && (pid == id || model.is_descendant(pid, id));
        e.out = call(s.fault, [&] { crates[idx].h->set_parent(p); });
        note("set_parent " + std::to_string(id) + " -> " + (pid ? std::to_string(pid) : "none") +
             (cycle ? " (cycle)" : "") + (e.out.threw ? " -> threw " + e.out.exc : " -> ok"));
        if (e.out.threw)
        {
            e.expect_unchanged = true;
            if (cycle)
                probes.hit("cycle_rejected");
        }
        else if (cycle)
        {
            report("C07", "C07|set_parent|" + fam() + "|cycle-accepted",
                   "set_parent(" + std::to_string(id) + " -> " + std::to_string(pid) + ") would create a cycle but was accepted");
            stop = true;
            stop_reason = "cycle accepted";
            return;
        }
        else
        {
            auto& mc = model.crates[id];
            if (mc.parent != pid)
            {
                auto& oo = model.order[mc.parent];
                if (oo.size() > 1 && oo.back() != id)
                    probes.hit("move_non_last_sibling");
                oo.erase(std::remove(oo.begin(), oo.end(), id), oo.end());
                mc.parent = pid;
                model.order[pid].push_back(id);
                free_elem[pid] = id;
                probes.hit("reparent_ok");
                if (!model.descendants_of(id).empty())
                    probes.hit("reparent_with_subtree");
            }
        }
        after_step(e);
        return;
    }
    if (s.op == "remove_crate")
    {
        bool subtree = !model.descendants_of(id).empty();
        e.out = call(s.fault, [&] { db->remove_crate(*crates[idx].h); });
        note("remove_crate " + std::to_string(id) + (e.out.threw ? " -> threw " + e.out.exc : " -> ok"));
        if (e.out.threw)
            e.expect_unchanged = true;
        else
        {
            auto gone = model.descendants_of(id);
            gone.push_back(id);
            model.remove_subtree(id);
            for (auto& sl : crates)
                if (std::find(gone.begin(), gone.end(), sl.id) != gone.end())
                    sl.live = false;
            probes.hit("remove_crate_ok");
            if (subtree)
                probes.hit("remove_crate_with_subtree");
        }
        after_step(e);
        return;
    }
}

void World::exec_member_op(const Step& s)
{
    auto arg = [&](size_t i) { return i < s.a.size() ? s.a[i] : 0; };
    StepEffect e;
    e.op = s.op;
    e.fault = s.fault;
    e.prop = "C08";
    int cidx = pick_live_crate(arg(0));
    if (cidx < 0)
    {
        note(s.op + " skipped: no crate");
        return;
    }
    int64_t cid = crates[cidx].id;
    auto& mem = model.members[cid];
    if (s.op == "clear")
    {
        e.out = call(s.fault, [&] { crates[cidx].h->clear_tracks(); });
        note("clear_tracks " + std::to_string(cid) + (e.out.threw ? " -> threw " + e.out.exc : " -> ok"));
        if (e.out.threw)
            e.expect_unchanged = true;
        else
            mem.clear();
        after_step(e);
        return;
    }
    int tidx = pick_live_track(arg(1));
    if (tidx < 0)
    {
        note(s.op + " skipped: no track");
        return;
    }
    int64_t tid = tracks[tidx].id;
    if (s.op == "add_track" && (arg(2) & 6) == 6)
    {
        // the same call through a handle to a crate that has been removed (and whose id no live crate carries): it may
        // throw or complete, but it is not an addition to any crate that exists - nothing observable may change now,
        // and a crate created later that happens to be given the old id starts empty (model: no members)
        int stale = -1;
        for (size_t i = 0; i < crates.size(); ++i)
            if (crates[i].h && !crates[i].live && !model.crates.count(crates[i].id))
                stale = (int)i;
        if (stale >= 0)
        {
            e.op = "add_track_stale";
            e.out = call(s.fault, [&] {
                if (arg(2) & 1)
                    crates[stale].h->add_track(tid);
                else
                    crates[stale].h->add_track(*tracks[tidx].h);
            });
            note("add_track through a handle to removed crate " + std::to_string(crates[stale].id) + " track " + std::to_string(tid) +
                 (e.out.threw ? " -> threw " + e.out.exc : " -> ok"));
            // (the removed crate's own stale handle may answer differently afterwards - that is not a query result about a
            //  crate that exists; the membership model, unchanged, judges every live crate and track)
            probes.hit("add_track_through_stale_crate_handle");
            after_step(e);
            return;
        }
    }
    if (s.op == "add_track")
    {
        bool by_id = (arg(2) & 1) != 0;
        bool present = std::find(mem.begin(), mem.end(), tid) != mem.end();
        e.out = call(s.fault, [&] {
            if (by_id)
                crates[cidx].h->add_track(tid);
            else
                crates[cidx].h->add_track(*tracks[tidx].h);
        });
        note("add_track crate " + std::to_string(cid) + " track " + std::to_string(tid) +
             (present ? " (already present)" : "") + (e.out.threw ? " -> threw " + e.out.exc : " -> ok"));
        if (e.out.threw)
            e.expect_unchanged = true;
        else if (!present)
            mem.push_back(tid);
        else
            probes.hit("re_add_present");
        if (tid != cid)
            probes.hit("ids_differ_track_crate");
        after_step(e);
        return;
    }
    if (s.op == "remove_from")
    {
        bool present = std::find(mem.begin(), mem.end(), tid) != mem.end();
        e.out = call(s.fault, [&] { crates[cidx].h->remove_track(*tracks[tidx].h); });
        note("remove_track crate " + std::to_string(cid) + " track " + std::to_string(tid) +
             (present ? "" : " (absent)") + (e.out.threw ? " -> threw " + e.out.exc : " -> ok"));
        if (e.out.threw)
            e.expect_unchanged = true;
        else
        {
            mem.erase(std::remove(mem.begin(), mem.end(), tid), mem.end());
            if (!present)
                probes.hit("remove_absent");
            else
                probes.hit("remove_present");
        }
        after_step(e);
        return;
    }
}

void World::exec_env_op(const Step& s)
{
    auto arg = [&](size_t i) { return i < s.a.size() ? s.a[i] : 0; };
    if (s.op == "clock")
    {
        static const int64_t deltas[] = {1, 60, 86400, -3600, -86400 * 365, 86400LL * 365 * 20,
                                         2147483647LL, -1};
        int64_t d = deltas[(uint64_t)arg(0) % 8];
        if (d == 2147483647LL)
            g_sim_clock = 2147483647LL + 10;  // past 2038
        else if (d == -1)
            g_sim_clock = 0;
        else
            g_sim_clock += d;
        if (d < 0)
            probes.hit("clock_backwards");
        note("clock -> " + std::to_string(g_sim_clock));
        return;
    }
    if (s.op == "obs_fault")
    {
        // faults inside OBSERVING calls: one statement of a full observation is refused (BUSY: the second party holds a
        // lock; or a generic error).  The answers of such an observation are not judged - every getter is called under
        // a guard - but no call may crash, abort or throw something that is not a std::exception (C15), and reading
        // may not write (C16).
        if (!db)
            return;
        const bool rec0 = g_disk.record_calls;
        g_disk.record_calls = true;
        Outcome clean = call(FaultSpec{}, [&] { (void)observe(); });
        g_disk.record_calls = rec0;
        int n = clean.stmts;
        if (n <= 0)
            return;
        Rng r(s.vseed ^ 0x0B5Full);
        int rounds = 3 + (int)r.below(4);
        const uint64_t w0 = g_disk.lib_writes + g_disk.lib_truncates + g_disk.lib_deletes;
        const int64_t c0 = g_taps.total_changes();
        int fired = 0;
        for (int i = 0; i < rounds && !stop; ++i)
        {
            FaultSpec f;
            f.kind = FK_STMT;
            f.pos = (int64_t)r.below((uint64_t)n);
            f.code = r.chance(3, 4) ? 5 : 1;
            Outcome o = call(f, [&] { (void)observe(); });
            fired += o.fault_fired ? 1 : 0;
            if (tstate && tstate->lib && v2)
            {
                f.pos = (int64_t)r.below(40);
                Outcome o2 = call(f, [&] { table_read_all_unguarded(); });
                fired += o2.fault_fired ? 1 : 0;
            }
        }
        // ... and real-path faults: the read is interrupted (F2), a device read / lock fails (F3), SQLite runs out of memory (F4)
        int real_fired = 0;
        {
            std::vector<size_t> vi;
            for (size_t i = 0; i < clean.vfs.size(); ++i)
                if (clean.vfs[i].method != VM_CLOSE)
                    vi.push_back(i);
            int rr = 2 + (int)r.below(3);
            for (int i = 0; i < rr && !stop; ++i)
            {
                FaultSpec f;
                unsigned k = (unsigned)r.below(3);
                if (k == 0 && clean.ticks)
                {
                    f.kind = FK_TICK;
                    f.pos = (int64_t)(1 + r.below(clean.ticks));
                }
                else if (k == 1 && !vi.empty())
                {
                    auto& v = clean.vfs[vi[r.below(vi.size())]];
                    f.kind = FK_VFS;
                    f.method = v.method;
                    f.role = v.role;
                    f.pos = v.ordinal;
                    f.persist = r.chance(1, 3) ? 1 : 0;
                    f.code = v.method == VM_READ ? SQLITE_IOERR_READ : v.method == VM_LOCK ? SQLITE_BUSY : v.method == VM_FILESIZE ? SQLITE_IOERR_FSTAT
                             : v.method == VM_UNLOCK ? SQLITE_IOERR_UNLOCK : v.method == VM_ACCESS ? SQLITE_IOERR_ACCESS : SQLITE_IOERR;
                }
                else if (clean.mallocs)
                {
                    f.kind = FK_MALLOC;
                    f.pos = (int64_t)(1 + r.below(clean.mallocs));
                }
                else
                    continue;
                Outcome o = call(f, [&] { (void)observe(); });
                real_fired += o.fault_fired ? 1 : 0;
            }
            probes.hit("observation_real_faults_fired", (uint64_t)real_fired);
        }
        if (g_disk.lib_writes + g_disk.lib_truncates + g_disk.lib_deletes != w0 || g_taps.total_changes() != c0)
            report("C16", "C16|observe-under-fault|" + fam() + "|disk-write", "an observation during which one statement was refused wrote to the database");
        note("obs_fault: " + std::to_string(rounds) + " observations of " + std::to_string(n) + " statements, " + std::to_string(fired) + " faults fired");
        probes.hit("observation_faults_fired", (uint64_t)fired);
        return;
    }
    if (s.op == "reload")
    {
        if (!plan.cfg.on_disk)
        {
            note("reload skipped: temporary library");
            return;
        }
        // stale handles are not carried across a reload: drop them first so
        // that both observations are driven by the database alone
        for (auto& t : tracks)
            if (!t.live)
                t.h.reset();
        for (auto& c : crates)
            if (!c.live)
                c.h.reset();
        FullObs before = observe();
        const bool table_obs = v2 && tstate && tstate->lib && check(CK_RELOAD);
        const std::string tdig_before = table_obs ? table_digest() : std::string();
        const bool pure_load = check(CK_PURITY);
        const uint64_t image_before = pure_load ? g_disk.image_hash(false) : 0;
        const uint64_t writes_before = g_disk.lib_writes + g_disk.lib_truncates;
        Rng r(s.vseed ^ 0x5E10ADull);
        // handles to stale entities are dropped with everything else
        close_all(&r);
        if (g_disk.open_handles() != 0)
            probes.hit("files_left_open_after_close");
        if (arg(0) & 1)
        {
            g_sim_clock += (arg(0) & 2) ? -86400 * 30 : 86400 * 400;
            probes.hit("clock_jump_at_reload");
        }
        // database_exists / create_or_load (C10 second sentence)
        if (check(CK_RELOAD))
        {
            Outcome o1 = call(FaultSpec{}, [&] {
                if (!eng::database_exists(api_dir()))
                    report("C10", "C10|database_exists|" + fam() + "|false-on-existing",
                           "database_exists() is false for an existing library");
            });
            if (o1.threw)
                report("C10", "C10|database_exists|" + fam() + "|threw", "database_exists threw " + o1.exc);
            if (arg(0) & 4)
            {
                bool created = true;
                eng::engine_schema ls = static_cast<eng::engine_schema>(12345);
                std::optional<dj::database> tmp;
                Outcome o2 = call(FaultSpec{}, [&] {
                    tmp = eng::create_or_load_database(api_dir(), eng::latest_schema, created, ls);
                });
                if (o2.threw)
                    report("C10", "C10|create_or_load|" + fam() + "|threw", "create_or_load threw " + o2.exc + ": " + o2.what);
                else
                {
                    if (created)
                        report("C10", "C10|create_or_load|" + fam() + "|created-on-existing",
                               "create_or_load_database reported created=true for an existing library");
                    if (ls != schema)
                        report("C10", "C10|create_or_load|" + fam() + "|loaded_schema",
                               "create_or_load_database reported schema ordinal " + std::to_string((int)ls));
                }
                tmp.reset();
                probes.hit("create_or_load_existing");
            }
            if (arg(0) & 8)
            {
                // an empty directory next to the library: must create
                std::string d2 = std::string(kRoot) + "/fresh" + std::to_string(uniq++);
                bool created = false;
                eng::engine_schema ls{};
                std::optional<dj::database> tmp;
                Outcome o3 = call(FaultSpec{}, [&] {
                    if (eng::database_exists(d2))
                        report("C10", "C10|database_exists|" + fam() + "|true-on-missing",
                               "database_exists() is true for a missing directory");
                });
                (void)o3;
                Outcome o4 = call(FaultSpec{}, [&] {
                    tmp = eng::create_or_load_database(d2, schema, created, ls);
                });
                if (o4.threw)
                    report("C10", "C10|create_or_load|" + fam() + "|threw-on-missing",
                           "create_or_load on a missing directory threw " + o4.exc + ": " + o4.what);
                else
                {
                    if (!created)
                        report("C10", "C10|create_or_load|" + fam() + "|not-created-on-missing",
                               "create_or_load_database reported created=false where no library existed");
                    if (tmp && (!tmp->tracks().empty() || !tmp->crates().empty()))
                        report("C10", "C10|create_or_load|" + fam() + "|not-empty", "fresh library not empty");
                    if (tmp && tmp->version_name() != eng::to_string(schema))
                        report("C10", "C10|create_or_load|" + fam() + "|wrong-version", "fresh library has the wrong version");
                }
                tmp.reset();
                probes.hit("create_or_load_missing");
            }
        }
        bool ok = reload();
        note(std::string("reload -> ") + (ok ? "ok" : "failed"));
        if (!ok)
        {
            stop = true;
            stop_reason = "reload failed";
            return;
        }
        probes.hit("reload_ok");
        FullObs after = observe();
        if (pure_load)
        {
            // closing, database_exists / loading and observing again must not have touched the stored files
            // (the create_or_load probe on a fresh directory writes elsewhere: only this library's files count)
            if (g_disk.image_hash(false) != image_before && !(arg(0) & 8))
                report("C16", "C16|load|" + fam() + "|image-changed", "close + load_database changed the stored database files");
            (void)writes_before;
            probes.hit("purity_load_checked");
        }
        if (check(CK_RELOAD))
        {
            // stale handles are not carried over: compare the database-driven part
            std::string s1 = before.serialize(), s2 = after.serialize();
            if (s1 != s2)
            {
                // first differing line
                size_t i = 0;
                while (i < s1.size() && i < s2.size() && s1[i] == s2[i])
                    ++i;
                size_t ls = s1.rfind('\n', i);
                ls = ls == std::string::npos ? 0 : ls + 1;
                std::string l1 = s1.substr(ls, s1.find('\n', i) - ls);
                std::string l2 = s2.substr(ls, s2.find('\n', i) - ls);
                report("C10", "C10|reload|" + fam() + "|observation-differs",
                       "before close: [" + l1 + "] after reload: [" + l2 + "]");
            }
        }
        if (table_obs && tstate && tstate->lib)
        {
            // what the 2.x table API shows (rows, lists, entities, change log, Information) is observable too
            if (table_digest() != tdig_before)
                report("C10", "C10|reload|" + fam() + "|table-observation-differs",
                       "the table API's view of the library (track rows, playlists, entities, change log, Information) differs "
                       "after close + load");
            probes.hit("reload_table_compared");
        }
        if (check(CK_MODEL))
            check_model(after);
        prev = after;
        have_prev = true;
        log.str("reload");
        log.u64(after.hash());
        gate_log.str("reload");
        return;
    }
}

// Real-path faults (F2 interrupt, F3 / F3p device fault, F4 allocation failure) inside an ORDINARY history - no restore, the
// same connection carries on afterwards.  SQLite may report such a fault after its commit point, so the verdict needs
// the fault-free post-state of this very call in this very world.  It comes from a shadow execution: the process forks,
// the child executes the step without the fault and sends back the observation hash and the call's statement / tick /
// allocation / VFS-call profile (against which the fault position is resolved, so that the fault always lands inside
// the call); the parent then executes the step with the fault.  The child shares nothing with the parent afterwards.
void World::exec_step(const Step& s)
{
    const bool real = s.fault.kind == FK_TICK || s.fault.kind == FK_VFS || s.fault.kind == FK_MALLOC;
    if (!real || !db || !plan.cfg.on_disk || plan.cfg.profile.compare(0, 6, "atomic") == 0)
    {
        exec_step_inner(s);
        return;
    }
    struct Hdr
    {
        uint64_t hash;
        int32_t valid, threw, stmts;
        uint64_t ticks, mallocs;
        uint32_t nvfs;
    } hdr{};
    std::vector<VfsCallInfo> vfs;
    bool got = false;
    int fds[2];
    if (pipe(fds) == 0)
    {
        fflush(stdout);
        fflush(stderr);
        pid_t pid = fork();
        if (pid == 0)
        {
            close(fds[0]);
            alarm(30);
            Step c = s;
            c.fault = FaultSpec{};
            g_disk.record_calls = true;
            exec_step_inner(c);
            Hdr h{};
            h.hash = have_prev ? prev.hash() : 0;
            h.valid = last_call.valid;
            h.threw = last_call.threw;
            h.stmts = last_call.stmts;
            h.ticks = last_call.ticks;
            h.mallocs = last_call.mallocs;
            h.nvfs = (uint32_t)last_call.vfs.size();
            std::string buf((const char*)&h, sizeof h);
            for (auto& v : last_call.vfs)
            {
                int32_t t[3] = {v.method, v.role, v.ordinal};
                buf.append((const char*)t, sizeof t);
            }
            size_t off = 0;
            while (off < buf.size())
            {
                ssize_t n = write(fds[1], buf.data() + off, buf.size() - off);
                if (n <= 0)
                    break;
                off += (size_t)n;
            }
            _exit(0);
        }
        close(fds[1]);
        std::string in;
        char tmp[4096];
        ssize_t n;
        while (pid > 0 && (n = read(fds[0], tmp, sizeof tmp)) > 0)
            in.append(tmp, (size_t)n);
        close(fds[0]);
        if (pid > 0)
        {
            int st = 0;
            waitpid(pid, &st, 0);
        }
        if (in.size() >= sizeof hdr)
        {
            memcpy(&hdr, in.data(), sizeof hdr);
            if (in.size() == sizeof hdr + (size_t)hdr.nvfs * 12)
            {
                got = true;
                for (uint32_t i = 0; i < hdr.nvfs; ++i)
                {
                    int32_t t[3];
                    memcpy(t, in.data() + sizeof hdr + (size_t)i * 12, 12);
                    vfs.push_back({t[0], t[1], t[2]});
                }
            }
        }
    }
    Step s2 = s;
    if (!got || !hdr.valid || hdr.threw)
    {
        // the step does not complete fault-free (rejected input, nothing to act on) or the shadow died: no fault
        probes.hit("shadow_unavailable");
        s2.fault = FaultSpec{};
        exec_step_inner(s2);
        return;
    }
    std::vector<size_t> vi;
    for (size_t i = 0; i < vfs.size(); ++i)
        if (vfs[i].method != VM_CLOSE)
            vi.push_back(i);
    if (s.fault.kind == FK_VFS)
    {
        if (vi.empty())
            s2.fault = FaultSpec{};
        else
        {
            auto& v = vfs[vi[(size_t)((uint64_t)s.fault.pos % vi.size())]];
            s2.fault.method = v.method;
            s2.fault.role = v.role;
            s2.fault.pos = v.ordinal;
            s2.fault.code = v.method == VM_WRITE ? ((s.fault.code & 1) ? SQLITE_FULL : SQLITE_IOERR_WRITE)
                            : v.method == VM_READ   ? SQLITE_IOERR_READ
                            : v.method == VM_SYNC   ? SQLITE_IOERR_FSYNC
                            : v.method == VM_TRUNCATE ? SQLITE_IOERR_TRUNCATE
                            : v.method == VM_DELETE ? SQLITE_IOERR_DELETE
                            : v.method == VM_OPEN   ? SQLITE_CANTOPEN
                            : v.method == VM_LOCK   ? SQLITE_BUSY
                            : v.method == VM_UNLOCK ? SQLITE_IOERR_UNLOCK
                            : v.method == VM_FILESIZE ? SQLITE_IOERR_FSTAT
                            : v.method == VM_ACCESS ? SQLITE_IOERR_ACCESS
                                                    : SQLITE_IOERR;
        }
    }
    else if (s.fault.kind == FK_TICK)
        s2.fault.pos = hdr.ticks ? (int64_t)(1 + (uint64_t)s.fault.pos % hdr.ticks) : 1;
    else
        s2.fault.pos = hdr.mallocs ? (int64_t)(1 + (uint64_t)s.fault.pos % hdr.mallocs) : 1;
    probes.hit("shadow_runs");
    const uint64_t before_hash = have_prev ? prev.hash() : 0;
    have_accept_post = true;
    accept_post_hash = hdr.hash;
    exec_step_inner(s2);
    have_accept_post = false;
    if (last_call.valid && last_call.fault_fired)
        probes.hit(last_call.threw ? "history_real_fault_threw" : "history_real_fault_absorbed");
    if (!stop && last_call.valid && last_call.threw && have_prev && prev.hash() == hdr.hash && hdr.hash != before_hash)
    {
        // reported after the commit point (allowed): the effect is complete although the call threw; the reference model
        // did not advance and the handle a create call would have returned is lost, so the history ends here
        probes.hit("history_threw_but_committed");
        stop = true;
        stop_reason = "a real-path fault was reported after the commit point (allowed outcome); the model cannot follow";
    }
}

void World::exec_step_inner(const Step& s)
{
    last_call = LastCall{};
    last_written.clear();
    op_counts[s.op]++;
    log.str(s.op);
    gate_log.str(s.op);
    for (auto x : s.a)
        log.u64((uint64_t)x);
    const bool cross = plan.cfg.profile.compare(0, 5, "cross") == 0 && tstate && tstate->lib;
    auto l_done = [&] {
        // crossover histories: T's row model follows what the track / crate API just wrote
        if (cross && !stop)
            table_sync_from_db();
    };
    if (s.op == "create_track" || s.op == "update" || s.op == "remove_track" ||
        s.op == "set" || s.op == "rewrite")
    {
        exec_track_op(s);
        return l_done();
    }
    if (s.op == "create_root" || s.op == "create_root_after" || s.op == "create_sub" ||
        s.op == "create_sub_after" || s.op == "set_name" || s.op == "set_parent" ||
        s.op == "remove_crate")
    {
        exec_crate_op(s);
        return l_done();
    }
    if (s.op == "add_track" || s.op == "remove_from" || s.op == "clear")
    {
        exec_member_op(s);
        return l_done();
    }
    if (s.op == "clock" || s.op == "reload" || s.op == "obs_fault")
    {
        exec_env_op(s);
        return l_done();
    }
    if (exec_table_op(s))
        return;
    if (exec_foreign_op(s))
        return;
    if (exec_hostile_op(s))
        return;
    if (exec_detect_op(s))
        return;
    if (exec_drift_op(s))
        return;
    note("unknown op " + s.op);
}

}  // namespace djsim
