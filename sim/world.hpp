// World: one simulated run = a library on SimDisk, the handles the client
// holds, the reference model, the previous observation, the violation list.
#pragma once
#include <cstdint>
#include <functional>
#include <map>
#include <memory>
#include <optional>
#include <set>
#include <string>
#include <vector>

#include <djinterop/djinterop.hpp>
#include <djinterop/engine/v2/engine_library.hpp>

#include "simdisk.hpp"
#include "taps.hpp"
#include "util.hpp"
#include "values.hpp"

namespace djsim
{
namespace dj = djinterop;
namespace eng = djinterop::engine;

// ------------------------------------------------------------------ plan
enum FaultKind
{
    FK_NONE = 0,
    FK_STMT = 1,   // F1: k-th statement fails without executing
    FK_TICK = 2,   // F2: interrupt at n-th VM tick
    FK_VFS = 3,    // F3: (method, role, ordinal) VFS call fails
    FK_MALLOC = 4, // F4: n-th SQLite allocation fails
    FK_LOCK = 5    // F9: the second party takes a write lock at the k-th statement boundary and holds it until the call ends
};

struct FaultSpec
{
    int kind = FK_NONE;
    int64_t pos = 0;  // ordinal / tick / allocation index
    int code = 0;     // sqlite result code
    int method = 0, role = 0;
    // F3 only: the fault does not go away.  1: from the addressed call on, EVERY call of that method on that file fails
    // until the API call returns (a device that stays broken); for SQLITE_FULL every size-extending write on every
    // library file fails (a disk that stays full).  One-shot otherwise.
    int persist = 0;
    Json to_json() const;
    static FaultSpec from_json(const Json& j);
};

struct Step
{
    std::string op;
    std::vector<int64_t> a;
    uint64_t vseed = 0;
    int size = 1;
    FaultSpec fault;
    // C14 fault sequences: faulted attempts of the same call executed in place (same connection, no restore) before
    // the attempt that carries `fault`
    std::vector<FaultSpec> pre;
    Json to_json() const;
    static Step from_json(const Json& j);
};

// oracle groups (bitmask)
enum Checks : uint32_t
{
    CK_MODEL = 1u << 0,      // forest / membership / order model (C07 C08 C09)
    CK_DIFF = 1u << 1,       // differential track checks (C06, C01 others)
    CK_ROUNDTRIP = 1u << 2,  // C01 field rules + fixed point
    CK_PURITY = 1u << 3,     // C16 monitors + double observation
    CK_AUDIT = 1u << 4,      // C11 raw auditor + C02 library-writes side
    CK_RELOAD = 1u << 5,     // C10 comparisons at reload
    CK_TABLE = 1u << 6,      // C18 / C03 table oracles
    CK_HOSTILE = 1u << 7,    // C15 hostile-caller profile (arguments outside the nominal domain)
    CK_FOREIGN = 1u << 8,    // C04 / C02-converse / C05 foreign-writer profile
    CK_ALL = 0xffffffffu
};

struct Config
{
    int schema = 17;  // index into supported_schemas
    bool on_disk = true;
    int cache_pages = 0;  // 0: default; >0: PRAGMA cache_size
    int sector = 4096;
    uint32_t checks = CK_ALL;
    bool table_api = false;  // 2.x: open through v2::engine_library so that actor T shares the connection
    bool dir_slash = false;  // the directory string handed to the library ends in '/' (the same directory; the string is what directory() echoes)
    bool twice = false;      // execute the plan twice over differently poisoned heap/stack: stored bytes must not depend on indeterminate memory
    std::string profile;
    GenFlags gf;
    Json to_json() const;
    static Config from_json(const Json& j);
};

struct Plan
{
    uint64_t seed = 0;
    Config cfg;
    std::vector<Step> steps;
    Json to_json() const;
    static Plan from_json(const Json& j);
    uint64_t digest() const { return hash_str(to_json().str()); }
};

// ------------------------------------------------------------------ results
struct Violation
{
    std::string prop;    // "C07"
    std::string key;     // class key
    std::string detail;  // human readable
    int step = -1;
    Json to_json() const;
};

struct Outcome
{
    bool threw = false;
    bool non_std = false;
    std::string exc;   // demangled dynamic type
    std::string what;
    bool fault_fired = false;
    int step_errors = 0;
    // counters of the bracketed call
    int stmts = 0;
    uint64_t ticks = 0, mallocs = 0;
    std::vector<VfsCallInfo> vfs;
};

std::string fault_site(const FaultSpec& f);

// ------------------------------------------------------------------ fields
enum Field
{
    F_ALBUM = 0,
    F_ARTIST,
    F_AVERAGE_LOUDNESS,
    F_BEATGRID,
    F_BITRATE,
    F_BPM,
    F_COMMENT,
    F_COMPOSER,
    F_DURATION,
    F_FILE_BYTES,  // no setter
    F_GENRE,
    F_HOT_CUES,
    F_KEY,
    F_LAST_PLAYED_AT,
    F_LOOPS,
    F_MAIN_CUE,
    F_PUBLISHER,
    F_RATING,
    F_RELATIVE_PATH,
    F_SAMPLE_COUNT,
    F_SAMPLE_RATE,
    F_TITLE,
    F_TRACK_NUMBER,
    F_WAVEFORM,
    F_YEAR,
    F_COUNT,
    // pseudo fields (setter-only addressing)
    F_HOT_CUE_AT = 100,
    F_LOOP_AT = 101
};
const char* field_name(int f);

// ------------------------------------------------------------------ observation
using Fields = std::vector<std::pair<std::string, std::string>>;

struct TrackObs
{
    int64_t id = 0;
    std::string valid;  // "1" / "0" / "!exc"
    Fields snap;        // fields of snapshot() (or {"!", exc})
    Fields get;         // individual getters
    bool have_snapshot = false;
    dj::track_snapshot snapshot;
};

struct CrateObs
{
    int64_t id = 0;
    std::string valid;
    std::string name;      // or "!exc"
    std::string raw_name;
    std::string parent;    // "-" none, id, or "!exc"
    std::string children;  // ids in returned order, or "!exc"
    std::string descendants;  // sorted ids
    std::string tracks;    // ids in returned order
    std::vector<int64_t> children_v, descendants_v, tracks_v;
    bool children_ok = false, descendants_ok = false, tracks_ok = false,
         parent_ok = false, name_ok = false;
    std::optional<int64_t> parent_v;
};

struct FullObs
{
    std::string uuid_token, version, directory;
    std::string table_digest;  // C14 enumeration on 2.x: digest of everything the table API shows
    std::string tracks, crates, roots;  // id lists as returned
    std::vector<int64_t> tracks_v, crates_v, roots_v;
    bool tracks_ok = false, crates_ok = false, roots_ok = false;
    std::map<int64_t, TrackObs> track;
    std::map<int64_t, CrateObs> crate;
    Fields lookups;  // by-id / by-name lookups
    struct NameLookup
    {
        std::string kind;
        int64_t crate = 0;
        std::string name;
        std::string result;
    };
    std::vector<NameLookup> name_lookups;
    std::string serialize() const;
    uint64_t hash() const { return hash_str(serialize()); }
};

// ------------------------------------------------------------------ model
struct MCrate
{
    int64_t id = 0;
    std::string name;
    int64_t parent = 0;  // 0 = root
};

struct Model
{
    std::set<int64_t> tracks;                         // live track ids
    std::map<int64_t, MCrate> crates;                 // live crates
    std::map<int64_t, std::vector<int64_t>> order;    // v2: ordered children per parent
    std::map<int64_t, std::vector<int64_t>> members;  // crate -> track ids, insertion order
    std::set<int64_t> dead_tracks, dead_crates;
    std::set<int64_t> issued_tracks, issued_crates;

    std::vector<int64_t> children_of(int64_t parent) const;
    std::vector<int64_t> descendants_of(int64_t id) const;
    bool is_descendant(int64_t maybe_desc, int64_t of) const;
    void remove_subtree(int64_t id);
};

// ------------------------------------------------------------------ handles
struct TrackSlot
{
    std::optional<dj::track> h;
    int64_t id = 0;
    bool live = false;
};
struct CrateSlot
{
    std::optional<dj::crate> h;
    int64_t id = 0;
    bool live = false;
};

struct Probes
{
    std::map<std::string, uint64_t> n;
    void hit(const std::string& k, uint64_t c = 1) { n[k] += c; }
};

struct World
{
    Plan plan;
    eng::engine_schema schema;
    bool v2 = false;
    int family = 0;  // 0: v1a (<1.15), 1: v1b (>=1.15), 2: v2
    std::string dir;
    std::optional<dj::database> db;
    std::vector<TrackSlot> tracks;
    std::vector<CrateSlot> crates;
    Model model;
    FullObs prev;
    bool have_prev = false;
    std::vector<Violation> viols;
    Probes probes;
    Hasher log;       // strict digest
    Hasher gate_log;  // gate digest: ops, outcomes, violations only
    int cur_step = -1;
    uint64_t uniq = 0;
    bool stop = false;       // world left the model: stop the run
    std::string stop_reason;
    int steps_executed = 0;
    int64_t clock0 = 0;  // simulated clock at the start of the run
    std::map<std::string, uint64_t> op_counts;
    std::map<std::string, uint64_t> fault_fired;
    std::set<uint64_t> state_hashes;  // distinct observation hashes seen
    std::vector<std::string> trace;   // human-readable, filled when tracing
    bool tracing = false;

    explicit World(const Plan& p);
    ~World();

    // --- lifecycle
    void open_library();  // create
    void close_all(Rng* order);
    bool reload();        // load_database + rebind handles; false if load threw

    // --- helpers
    bool model_off = false;  // a hostile call with undefined model semantics completed: stop model checks
    bool check(uint32_t c) const
    {
        if (model_off && (c == CK_MODEL || c == CK_DIFF))
            return false;
        return (plan.cfg.checks & c) != 0;
    }
    void report(const std::string& prop, const std::string& key,
                const std::string& detail);
    void note(const std::string& s);
    int pick_live_track(int64_t t) const;  // index into tracks or -1
    int pick_live_crate(int64_t t) const;
    int pick_any_track(int64_t t) const;
    int pick_any_crate(int64_t t) const;
    std::string fam() const { return family == 2 ? "v2" : (family == 1 ? "v1b" : "v1a"); }
    // property that owns "did not return or throw a std::exception / did not terminate" verdicts in this run
    std::string safety_owner() const { return plan.cfg.profile.compare(0, 7, "corrupt") == 0 ? "C05" : "C15"; }

    // --- API call bracket
    void begin_call(const FaultSpec& f);
    void end_call(Outcome& o);
    void contention_prepare(int role);  // F9: open the second party's connection before the call
    void contention_release();
    template <typename Fn>
    Outcome call(const FaultSpec& f, Fn&& fn);

    // --- execution
    void run();
    // the directory as the client spells it when talking to the library (harness code uses the canonical `dir`)
    std::string api_dir() const { return plan.cfg.dir_slash ? dir + "/" : dir; }
    void exec_step(const Step& s);
    void exec_step_inner(const Step& s);

    // --- observation & oracles (obs.cpp / oracle.cpp)
    FullObs observe();
    TrackObs observe_track(dj::track& t);
    CrateObs observe_crate(dj::crate& c);
    struct StepEffect
    {
        std::string op;
        Outcome out;
        std::string prop;              // property blamed for unexpected differences
        int64_t track = 0;             // target track id (0: none)
        std::set<std::string> fields;  // fields of the target allowed to change ("*": all)
        bool expect_unchanged = false; // whole observation must equal the previous one
        bool raw = false;              // table-API call inside the C14 enumeration: no model / differential checks
        FaultSpec fault;
    };
    // the main mutating call of the most recent step
    struct LastCall
    {
        bool valid = false, threw = false, fault_fired = false;
        int stmts = 0;
        uint64_t ticks = 0, mallocs = 0;
        std::vector<VfsCallInfo> vfs;
        std::string opname;
    } last_call;
    struct Saved;
    void save_state(Saved& s);
    bool restore_state(const Saved& s);
    void run_atomic();
    std::map<std::string, Json> derived;  // class key -> plan that reproduces it directly
    Json enumeration;
    bool have_enumeration = false;
    uint64_t accept_post_hash = 0;  // C14: a real-path fault may be reported after the commit point
    bool have_accept_post = false;
    void after_step(const StepEffect& e);
    void check_getter_vs_snapshot(const TrackObs& t);
    void exec_track_op(const Step& s);
    void exec_crate_op(const Step& s);
    void exec_member_op(const Step& s);
    void exec_env_op(const Step& s);
    bool exec_table_op(const Step& s);    // table.cpp (actor T)
    bool exec_foreign_op(const Step& s);  // foreign.cpp (actor F)
    void foreign_forget();
    void foreign_write_v1(const Step& s, int64_t id, int track_index);
    void audit_table_row(int64_t id, const djinterop::engine::v2::track_row& row, const std::string& op);
    void corrupt_blob(const Step& s, int track_index);
    void corrupt_pages(const Step& s);
    void corrupt_grid(const Step& s, int track_index);
    bool exec_hostile_op(const Step& s);  // hostile.cpp
    bool exec_detect_op(const Step& s);   // detect.cpp (C13)
    bool exec_drift_op(const Step& s);    // drift.cpp (C17)
    void hostile_finish(const std::string& op);
    void adopt_crate(const dj::crate& c, int64_t parent, const std::string& name);
    void apply_setter(dj::track& t, int field, int slot, const dj::track_snapshot& donor,
                      bool use_value_overload);
    // actor T (table.cpp)
    struct TState;
    struct TStateDeleter
    {
        void operator()(TState* p) const;
    };
    std::unique_ptr<TState, TStateDeleter> tstate;
    void table_check(const std::string& op, int64_t touched);
    void table_sync_from_db();  // atomic profile: rebuild actor T's row/list model from the library itself
    void cross_rebuild_l_model(const std::string& op);
    void open_table_library();
    void close_table_library();
    bool reload_table_library();
    void audit();  // audit.cpp (actor A)
    std::set<int64_t> foreign_tracks;  // rows written by actor F with shapes the API cannot express
    std::set<std::string> seen_paths;  // every relative path a live track was observed to have (lookup candidates)
    std::set<int64_t> unanalysed;      // 1.x tracks whose PerformanceData row the second party deleted (until the next full write)
    void check_model(const FullObs& o);
    void check_name_lookups(const FullObs& o);
    std::map<int64_t, int64_t> free_elem;  // parent -> element whose position is free this step
    void check_purity_begin();
    void check_purity_end(const char* what);
    void purity_extras();
    void table_read_all();  // table.cpp: every read accessor of the 2.x table API
    void table_read_all_unguarded();  // the same inside ONE bracketed call (an armed fault stays armed)
    std::string table_digest();
    void check_roundtrip(const dj::track_snapshot& written, dj::track& t,
                         const char* opname, bool is_create);
    bool field_rule(int field, const dj::track_snapshot& s, const dj::track_snapshot& r,
                    bool setter, std::string& why);
    Json result_json() const;

    // the snapshot handed to create_track / update in the step being judged, per track id (valid for that step only):
    // the independent auditor compares what is stored with what the caller gave, not only with what the library reads back
    std::map<int64_t, dj::track_snapshot> last_written;
    std::map<std::string, int> uuid_seen;  // UUID text -> token number (observe())
    // purity monitor state
    uint64_t pm_writes = 0, pm_trunc = 0, pm_del = 0, pm_hash = 0;
    int64_t pm_changes = 0;
    bool pm_hot_journal = false;
};

std::string demangle(const char* name);
std::string render_snapshot_field(const dj::track_snapshot& s, int f);
Fields render_snapshot(const dj::track_snapshot& s);
std::string ids_str(const std::vector<int64_t>& v);

template <typename Fn>
Outcome World::call(const FaultSpec& f, Fn&& fn)
{
    Outcome o;
    begin_call(f);
    try
    {
        fn();
    }
    catch (const std::exception& e)
    {
        o.threw = true;
        o.exc = demangle(typeid(e).name());
        o.what = e.what();
    }
    catch (...)
    {
        o.threw = true;
        o.non_std = true;
        o.exc = "<non-std>";
    }
    end_call(o);
    return o;
}

// plan generation (plan.cpp)
Plan generate_plan(const std::string& profile, uint64_t seed, uint64_t index = 0);
std::vector<std::string> all_profiles();

}  // namespace djsim
