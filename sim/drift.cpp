// C17: verify() sees every single structural deviation.  While the library is
// closed the second party applies ONE structural edit to a valid library
// (ordinary DDL where SQLite allows it, sqlite_master text edits otherwise);
// after reload verify() must report it.  Edits that do not change what
// sqlite_master / table_info / index_list / index_info report are not judged.
#include <algorithm>
#include <regex>

#include "rawdb.hpp"
#include "world.hpp"

namespace djsim
{
namespace
{
struct Col
{
    std::string name, type, dflt;
    int notnull = 0, pk = 0;
};
struct Obj
{
    std::string type, name, tbl, sql;
};

std::vector<Obj> master(HDb& d)
{
    std::vector<Obj> v;
    d.run("SELECT type, name, tbl_name, ifnull(sql, '') FROM sqlite_master ORDER BY type, name", {}, [&](sqlite3_stmt* st) {
        v.push_back({HDb::text(st, 0), HDb::text(st, 1), HDb::text(st, 2), HDb::text(st, 3)});
    });
    return v;
}
std::vector<Col> columns(HDb& d, const std::string& table)
{
    std::vector<Col> v;
    d.run("PRAGMA table_info('" + table + "')", {}, [&](sqlite3_stmt* st) {
        Col c;
        c.name = HDb::text(st, 1);
        c.type = HDb::text(st, 2);
        c.notnull = sqlite3_column_int(st, 3);
        c.dflt = HDb::text(st, 4);
        c.pk = sqlite3_column_int(st, 5);
        v.push_back(c);
    });
    return v;
}

// what the library's validators can see: names of tables and views, per table
// its columns (name, type, notnull, default, pk) and indices (name, unique,
// origin, partial, columns)
std::string catalogue(HDb& d, bool& ok)
{
    std::string s;
    ok = true;
    auto objs = master(d);
    if (!d.err.empty())
        ok = false;
    for (auto& o : objs)
    {
        if (o.type != "table" && o.type != "view")
            continue;
        s += o.type + " " + o.name + "\n";
        if (o.type != "table")
            continue;
        for (auto& c : columns(d, o.name))
            s += "  col " + c.name + "|" + c.type + "|" + std::to_string(c.notnull) + "|" + c.dflt + "|" + std::to_string(c.pk) + "\n";
        std::vector<std::string> idx;
        d.run("PRAGMA index_list('" + o.name + "')", {}, [&](sqlite3_stmt* st) {
            idx.push_back(HDb::text(st, 1));
            s += "  idx " + HDb::text(st, 1) + "|" + HDb::text(st, 2) + "|" + HDb::text(st, 3) + "|" + HDb::text(st, 4) + "\n";
        });
        std::sort(idx.begin(), idx.end());
        for (auto& i : idx)
            d.run("PRAGMA index_info('" + i + "')", {}, [&](sqlite3_stmt* st) {
                s += "    " + i + " " + HDb::text(st, 0) + " " + HDb::text(st, 2) + "\n";
            });
    }
    return s;
}

bool edit_master_sql(HDb& d, const std::string& type, const std::string& name, const std::string& new_sql,
                     const std::string& new_name = std::string())
{
    bool ok = d.exec("PRAGMA writable_schema = ON");
    if (new_name.empty())
        ok = ok && d.run("UPDATE sqlite_master SET sql = ? WHERE type = ? AND name = ?",
                         {HDb::Bind::Text(new_sql), HDb::Bind::Text(type), HDb::Bind::Text(name)});
    else
        ok = ok && d.run("UPDATE sqlite_master SET sql = ?, name = ?, tbl_name = CASE WHEN type = 'view' THEN ? ELSE tbl_name END "
                         "WHERE type = ? AND name = ?",
                         {HDb::Bind::Text(new_sql), HDb::Bind::Text(new_name), HDb::Bind::Text(new_name), HDb::Bind::Text(type),
                          HDb::Bind::Text(name)});
    // make other connections re-read the schema
    int64_t ver = 0;
    d.run("PRAGMA schema_version", {}, [&](sqlite3_stmt* st) { ver = sqlite3_column_int64(st, 0); });
    d.exec("PRAGMA schema_version = " + std::to_string(ver + 1));
    d.exec("PRAGMA writable_schema = OFF");
    return ok;
}

std::string rx_escape(const std::string& s)
{
    std::string o;
    for (char c : s)
    {
        if (std::string("\\^$.|?*+()[]{}").find(c) != std::string::npos)
            o += '\\';
        o += c;
    }
    return o;
}

// position of the declared type of column `c` inside the CREATE TABLE text
bool find_coldef(const std::string& sql, const Col& c, size_t& type_pos, size_t& type_len)
{
    if (c.type.empty())
        return false;
    std::regex re("([\\(,]\\s*[\\[\"`]?" + rx_escape(c.name) + "[\\]\"`]?\\s+)(" + rx_escape(c.type) + ")(?![A-Za-z0-9_])");
    std::smatch m;
    if (!std::regex_search(sql, m, re))
        return false;
    type_pos = (size_t)m.position(2);
    type_len = (size_t)m.length(2);
    return true;
}
}  // namespace

bool World::exec_drift_op(const Step& s)
{
    if (s.op != "x_drift")
        return false;
    auto arg = [&](size_t i) { return i < s.a.size() ? s.a[i] : 0; };
    if (!db || !plan.cfg.on_disk)
        return true;
    Rng r(s.vseed ^ 0xD21F7ull);
    std::string F = fam();
    // ---- accepting side: the library as it stands must verify
    {
        Outcome o = call(FaultSpec{}, [&] { db->verify(); });
        if (o.threw)
            report("C17", "C17|verify|" + F + "|rejects-own-library", "verify() threw on a library this version created: " + o.exc + ": " + o.what);
        probes.hit("verify_accepts_checked");
    }
    // one probe in four leaves the library OPEN: the second party edits the schema behind the live handle and
    // verify() is called again on that same handle (no reload in between)
    const bool live = (arg(0) & 16) != 0 && (arg(0) & 32) != 0;
    for (auto& t : tracks)
        if (!t.live)
            t.h.reset();
    for (auto& c : crates)
        if (!c.live)
            c.h.reset();
    DiskImage img;
    if (!live)
    {
        close_all(&r);
        if (g_disk.open_handles() != 0)
        {
            stop = true;
            stop_reason = "files left open after close";
            return true;
        }
    }
    img = g_disk.snapshot();  // (live: the library holds no lock and no dirty page between calls)
    auto restore_and_go_on = [&] {
        for (auto& t : tracks)
            t.h.reset();
        for (auto& c : crates)
            c.h.reset();
        close_all(nullptr);
        if (g_disk.open_handles() != 0)
        {
            stop = true;
            stop_reason = "files left open after drift probe";
            return;
        }
        g_disk.restore(img);
        if (!reload())
        {
            stop = true;
            stop_reason = "reload after restoring the image failed";
        }
        have_prev = false;
    };
    bool perf = !v2 && (arg(0) % 4) == 0;
    std::string path = v2 ? dir + "/Database2/m.db" : dir + (perf ? "/p.db" : "/m.db");
    std::string kind, target, ddl_err;
    std::string before, after;
    bool applied = false;
    {
        HDb d;
        if (!d.open(path, false))
        {
            restore_and_go_on();
            return true;
        }
        bool ok = true;
        before = catalogue(d, ok);
        auto objs = master(d);
        std::vector<Obj> tables, views, indices;
        for (auto& o : objs)
        {
            if (o.name.compare(0, 7, "sqlite_") == 0)
                continue;
            if (o.type == "table")
                tables.push_back(o);
            else if (o.type == "view")
                views.push_back(o);
            else if (o.type == "index" && !o.sql.empty())
                indices.push_back(o);
        }
        auto pick = [&](std::vector<Obj>& v, int64_t a) -> Obj* { return v.empty() ? nullptr : &v[(uint64_t)a % v.size()]; };
        unsigned k = (unsigned)((uint64_t)arg(1) % 19);
        Obj* T = pick(tables, arg(2));
        std::vector<Col> cols = T ? columns(d, T->name) : std::vector<Col>{};
        const Col* C = cols.empty() ? nullptr : &cols[(uint64_t)arg(3) % cols.size()];
        if ((arg(0) & 192) == 192)
        {
            // a quarter of the probes aim at the unusual catalogue elements, which are few and where a
            // hand-written validator is most likely to have a special case: untyped columns, columns with a
            // default, NOT NULL or primary-key columns
            std::vector<std::pair<size_t, size_t>> special;
            for (size_t ti = 0; ti < tables.size(); ++ti)
            {
                auto cs = columns(d, tables[ti].name);
                for (size_t ci = 0; ci < cs.size(); ++ci)
                    if (cs[ci].type.empty() || !cs[ci].dflt.empty() || cs[ci].notnull || cs[ci].pk)
                        special.emplace_back(ti, ci);
            }
            if (!special.empty())
            {
                auto sp = special[(uint64_t)arg(3) % special.size()];
                T = &tables[sp.first];
                cols = columns(d, T->name);
                C = &cols[sp.second];
                probes.hit("drift_special_column");
            }
        }
        auto text_edit_col = [&](const std::function<bool(std::string&, size_t, size_t)>& fn) {
            if (!T || !C)
                return false;
            std::string sql = T->sql;
            size_t pos = 0, len = 0;
            if (!find_coldef(sql, *C, pos, len))
                return false;
            if (!fn(sql, pos, len))
                return false;
            return edit_master_sql(d, "table", T->name, sql);
        };
        switch (k)
        {
            case 0:
                kind = "drop-table";
                if (T)
                {
                    target = T->name;
                    applied = d.exec("DROP TABLE \"" + T->name + "\"");
                }
                break;
            case 1:
                kind = "add-table";
                target = "zzDriftTable";
                applied = d.exec("CREATE TABLE zzDriftTable (a INTEGER, b TEXT)");
                break;
            case 2:
                kind = "rename-table";
                if (T)
                {
                    target = T->name;
                    applied = d.exec("ALTER TABLE \"" + T->name + "\" RENAME TO \"" + T->name + "Renamed\"");
                }
                break;
            case 3:
                kind = "drop-view";
                if (Obj* V = pick(views, arg(2)))
                {
                    target = V->name;
                    applied = d.exec("DROP VIEW \"" + V->name + "\"");
                }
                break;
            case 4:
                kind = "add-view";
                target = "zzDriftView";
                applied = d.exec("CREATE VIEW zzDriftView AS SELECT 1 AS a");
                break;
            case 5:
                kind = "rename-view";
                if (Obj* V = pick(views, arg(2)))
                {
                    target = V->name;
                    std::string sql = V->sql;
                    auto p = sql.find(V->name);
                    if (p != std::string::npos)
                    {
                        sql.replace(p, V->name.size(), V->name + "Renamed");
                        applied = edit_master_sql(d, "view", V->name, sql, V->name + "Renamed");
                    }
                }
                break;
            case 6:
                kind = "drop-column";
                if (T && C)
                {
                    target = T->name + "." + C->name;
                    applied = d.exec("ALTER TABLE \"" + T->name + "\" DROP COLUMN \"" + C->name + "\"");
                }
                break;
            case 7:
                kind = "add-column";
                if (T)
                {
                    target = T->name + ".zzDriftCol";
                    applied = d.exec("ALTER TABLE \"" + T->name + "\" ADD COLUMN zzDriftCol INTEGER");
                }
                break;
            case 8:
                kind = "rename-column";
                if (T && C)
                {
                    target = T->name + "." + C->name;
                    applied = d.exec("ALTER TABLE \"" + T->name + "\" RENAME COLUMN \"" + C->name + "\" TO \"" + C->name + "Renamed\"");
                }
                break;
            case 9:
                kind = "column-type";
                if (T && C && C->type.empty())
                {
                    // a column declared without a type: give it one
                    target = T->name + "." + C->name;
                    std::string sql = T->sql;
                    std::regex re("([\\(,]\\s*[\\[\"`]?" + rx_escape(C->name) + "[\\]\"`]?)(?![A-Za-z0-9_])");
                    std::smatch m;
                    if (std::regex_search(sql, m, re))
                    {
                        sql.insert((size_t)(m.position(1) + m.length(1)), " INTEGER");
                        applied = edit_master_sql(d, "table", T->name, sql);
                    }
                }
                else if (T && C)
                {
                    target = T->name + "." + C->name;
                    static const char* types[] = {"INTEGER", "TEXT", "BLOB", "REAL", "NUMERIC", "BOOLEAN", "DATETIME"};
                    std::string nt = types[r.below(7)];
                    if (nt == C->type)
                        nt = C->type == "TEXT" ? "INTEGER" : "TEXT";
                    // a rowid alias must stay INTEGER for AUTOINCREMENT to parse
                    applied = text_edit_col([&](std::string& sql, size_t pos, size_t len) {
                        if (sql.compare(pos + len, 26, " PRIMARY KEY AUTOINCREMENT") == 0)
                            sql.erase(pos + len + 12, 14);
                        sql.replace(pos, len, nt);
                        return true;
                    });
                }
                break;
            case 10:
                kind = "column-nullability";
                if (T && C)
                {
                    target = T->name + "." + C->name;
                    applied = text_edit_col([&](std::string& sql, size_t pos, size_t len) {
                        if (C->notnull)
                        {
                            auto p = sql.find(" NOT NULL", pos + len);
                            auto comma = sql.find(',', pos + len);
                            if (p == std::string::npos || (comma != std::string::npos && p > comma))
                                return false;
                            sql.erase(p, 9);
                        }
                        else
                            sql.insert(pos + len, " NOT NULL");
                        return true;
                    });
                }
                break;
            case 11:
                kind = "column-default";
                if (T && C)
                {
                    target = T->name + "." + C->name;
                    applied = text_edit_col([&](std::string& sql, size_t pos, size_t len) {
                        if (!C->dflt.empty())
                        {
                            auto p = sql.find(" DEFAULT " + C->dflt, pos + len);
                            if (p == std::string::npos)
                                return false;
                            sql.replace(p, 9 + C->dflt.size(), " DEFAULT 7");
                            return C->dflt != "7";
                        }
                        if (sql.compare(pos + len, 12, " PRIMARY KEY") == 0)
                            return false;
                        sql.insert(pos + len, " DEFAULT 7");
                        return true;
                    });
                }
                break;
            case 12:
                kind = "column-pk";
                if (T && C)
                {
                    target = T->name + "." + C->name;
                    applied = text_edit_col([&](std::string& sql, size_t pos, size_t len) {
                        if (C->pk)
                        {
                            if (sql.compare(pos + len, 26, " PRIMARY KEY AUTOINCREMENT") == 0)
                                sql.erase(pos + len, 26);
                            else if (sql.compare(pos + len, 12, " PRIMARY KEY") == 0)
                                sql.erase(pos + len, 12);
                            else
                                return false;
                            return true;
                        }
                        for (auto& c : cols)
                            if (c.pk)
                                return false;  // a second PRIMARY KEY does not parse
                        sql.insert(pos + len, " PRIMARY KEY");
                        return true;
                    });
                }
                break;
            case 13:
                kind = "drop-index";
                if (Obj* I = pick(indices, arg(2)))
                {
                    target = I->name;
                    applied = d.exec("DROP INDEX \"" + I->name + "\"");
                }
                break;
            case 14:
                kind = "add-index";
                if (T && C)
                {
                    target = T->name + "(" + C->name + ")";
                    applied = d.exec("CREATE INDEX zzDriftIndex ON \"" + T->name + "\" (\"" + C->name + "\")");
                }
                break;
            case 15:
                kind = "rename-index";
                if (Obj* I = pick(indices, arg(2)))
                {
                    target = I->name;
                    std::string sql = I->sql;
                    auto p = sql.find(I->name);
                    if (p != std::string::npos)
                    {
                        sql.replace(p, I->name.size(), I->name + "Renamed");
                        applied = edit_master_sql(d, "index", I->name, sql, I->name + "Renamed");
                    }
                }
                break;
            case 18:
                // an extra table the way another program leaves one without any CREATE TABLE: planner statistics
                kind = "add-table-analyze";
                target = "sqlite_stat1";
                applied = d.exec("ANALYZE");
                break;
            case 16:
                kind = "index-uniqueness";
                if (Obj* I = pick(indices, arg(2)))
                {
                    target = I->name;
                    std::string sql = I->sql;
                    auto p = sql.find("CREATE UNIQUE INDEX");
                    if (p != std::string::npos)
                        sql.replace(p, 19, "CREATE INDEX");
                    else if ((p = sql.find("CREATE INDEX")) != std::string::npos)
                        sql.replace(p, 12, "CREATE UNIQUE INDEX");
                    else
                        break;
                    applied = edit_master_sql(d, "index", I->name, sql);
                }
                break;
            default:
                kind = "index-columns";
                if (Obj* I = pick(indices, arg(2)))
                {
                    target = I->name;
                    // replace the indexed column list by another column of the same table
                    auto tcols = columns(d, I->tbl);
                    // the indexed terms are the outermost parenthesis after "ON <table>" (a term may itself be an expression)
                    auto on = I->sql.find(" ON ");
                    if (on == std::string::npos)
                        on = I->sql.find(" on ");
                    auto open = on == std::string::npos ? std::string::npos : I->sql.find('(', on);
                    auto close = I->sql.rfind(')');
                    if (tcols.empty() || open == std::string::npos || close == std::string::npos || close < open)
                        break;
                    std::string cur = I->sql.substr(open + 1, close - open - 1);
                    std::string repl;
                    for (size_t i = 0; i < tcols.size(); ++i)
                    {
                        auto& c = tcols[((uint64_t)arg(3) + i) % tcols.size()];
                        if (cur.find(c.name) == std::string::npos)
                        {
                            repl = c.name;
                            break;
                        }
                    }
                    if (repl.empty())
                        break;
                    std::string sql = I->sql.substr(0, open + 1) + " " + repl + " " + I->sql.substr(close);
                    applied = edit_master_sql(d, "index", I->name, sql);
                }
                break;
        }
        if (!applied)
            ddl_err = d.err;
    }
    log.str("x_drift " + kind);
    gate_log.str("x_drift " + kind);
    if (!applied)
    {
        note("x_drift " + kind + " " + target + ": not applicable here (" + ddl_err.substr(0, 80) + ")");
        probes.hit("drift_not_applicable");
        restore_and_go_on();
        return true;
    }
    // ---- is the edit well-formed and visible?
    {
        HDb d;
        bool ok = d.open(path, true);
        if (ok)
            after = catalogue(d, ok);
        int64_t n = -1;
        if (ok)
            ok = d.run("SELECT count(*) FROM sqlite_master", {}, [&](sqlite3_stmt* st) { n = sqlite3_column_int64(st, 0); }) && n >= 0;
        if (!ok)
        {
            note("x_drift " + kind + " " + target + ": edit leaves an unreadable schema; skipped");
            probes.hit("drift_unreadable_schema");
            restore_and_go_on();
            return true;
        }
    }
    if (after == before)
    {
        note("x_drift " + kind + " " + target + ": invisible to the catalogue pragmas; skipped");
        probes.hit("drift_invisible");
        restore_and_go_on();
        return true;
    }
    probes.hit("drift_applied");
    probes.hit("drift_" + kind);
    {
        Hasher h;
        h.str(kind);
        h.str(target);
        h.u64((uint64_t)plan.cfg.schema);
        state_hashes.insert(h.value());
    }
    // ---- reload (unless the handle stayed open) and verify
    bool loaded = live;
    if (live)
        probes.hit("drift_behind_live_handle");
    else
    {
        eng::engine_schema ls{};
        Outcome o = call(FaultSpec{}, [&] { db = eng::load_database(dir, ls); });
        loaded = !o.threw;
        note("x_drift " + kind + " " + target + ": load_database " + (o.threw ? "threw " + o.exc + ": " + o.what.substr(0, 100) : "ok"));
        if (o.threw)
        {
            probes.hit("drift_rejected_at_load");
            gate_log.str("load threw");
        }
    }
    if (loaded)
    {
        bool inconsistency = false;
        Outcome o = call(FaultSpec{}, [&] {
            try
            {
                db->verify();
            }
            catch (const dj::database_inconsistency&)
            {
                inconsistency = true;
                throw;
            }
        });
        note(std::string("  verify() ") + (o.threw ? "threw " + o.exc + ": " + o.what.substr(0, 120) : "returned normally"));
        gate_log.str(o.threw ? "verify threw" : "verify ok");
        if (!o.threw)
            report("C17", "C17|" + kind + "|" + F + (perf ? "|perfdata" : "|music") + (live ? "|accepted-on-live-handle" : "|accepted"),
                   "verify() accepted a library after '" + kind + "' of " + target + " (schema " + eng::to_string(schema) + ")" +
                       (live ? " made by a second connection while the handle stayed open" : ""));
        else if (inconsistency)
            probes.hit("drift_reported_as_inconsistency");
        else
            probes.hit("drift_reported_by_other_exception");
        if (o.non_std)
            report("C17", "C17|" + kind + "|" + F + "|non-std-exception", "verify() threw something not derived from std::exception");
    }
    restore_and_go_on();
    return true;
}

}  // namespace djsim
