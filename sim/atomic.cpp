// C14: fault enumeration inside one mutating call.
//
// plan.steps = prefix (fault-free history) + one probe step.  The probe is
// dry-run once from the cold-cache state S (after close + reload) to learn how
// many statements, VFS calls, VM ticks and SQLite allocations it makes; then it
// is re-executed from S once per fault position.  The ordinary step executor
// and its oracles decide each attempt: a call that threw must leave the full
// observation equal to S; a call that returned must match the model's
// post-state; a statement error must not be swallowed.
#include <sqlite3.h>

#include <algorithm>

#include "world.hpp"

namespace djsim
{
namespace
{
int vfs_code_for(int method, uint64_t salt)
{
    switch (method)
    {
        case VM_OPEN: return SQLITE_CANTOPEN;
        case VM_DELETE: return SQLITE_IOERR_DELETE;
        case VM_ACCESS: return SQLITE_IOERR_ACCESS;
        case VM_READ: return SQLITE_IOERR_READ;
        case VM_WRITE: return (salt & 1) ? SQLITE_FULL : SQLITE_IOERR_WRITE;
        case VM_TRUNCATE: return SQLITE_IOERR_TRUNCATE;
        case VM_SYNC: return SQLITE_IOERR_FSYNC;
        case VM_FILESIZE: return SQLITE_IOERR_FSTAT;
        case VM_LOCK: return (salt & 1) ? SQLITE_BUSY : SQLITE_IOERR_LOCK;
        case VM_UNLOCK: return SQLITE_IOERR_UNLOCK;
        default: return SQLITE_IOERR;
    }
}
}  // namespace

struct World::Saved
{
    DiskImage img;
    Model model;
    std::vector<std::pair<int64_t, bool>> tslots, cslots;
    uint64_t uniq = 0;
    int64_t clock = 0;
    FullObs prev;
    std::set<std::string> seen_paths;
};

void World::save_state(Saved& s)
{
    s.img = g_disk.snapshot();
    s.model = model;
    s.tslots.clear();
    s.cslots.clear();
    for (auto& t : tracks)
        s.tslots.emplace_back(t.id, t.live);
    for (auto& c : crates)
        s.cslots.emplace_back(c.id, c.live);
    s.uniq = uniq;
    s.clock = g_sim_clock;
    s.prev = prev;
    s.seen_paths = seen_paths;
}

bool World::restore_state(const Saved& s)
{
    close_all(nullptr);
    if (g_disk.open_handles() != 0)
    {
        stop = true;
        stop_reason = "files still open after releasing every handle; cannot restore the disk";
        return false;
    }
    g_disk.restore(s.img);
    model = s.model;
    tracks.clear();
    crates.clear();
    for (auto& p : s.tslots)
        tracks.push_back({std::nullopt, p.first, p.second});
    for (auto& p : s.cslots)
        crates.push_back({std::nullopt, p.first, p.second});
    uniq = s.uniq;
    seen_paths = s.seen_paths;
    g_sim_clock = s.clock;
    size_t nv = viols.size();
    if (!reload())
    {
        stop = true;
        stop_reason = "reload after disk restore failed";
        return false;
    }
    (void)nv;
    prev = s.prev;
    have_prev = true;
    free_elem.clear();
    return true;
}

void World::run_atomic()
{
    open_library();
    if (stop || plan.steps.empty())
        return;
    {
        FullObs o = observe();
        prev = o;
        have_prev = true;
    }
    size_t n = plan.steps.size();
    for (size_t i = 0; i + 1 < n && !stop; ++i)
    {
        cur_step = (int)i;
        exec_step(plan.steps[i]);
        ++steps_executed;
    }
    if (stop)
        return;
    const Step probe = plan.steps[n - 1];
    cur_step = (int)n - 1;

    // cold-cache state S
    {
        Step rl;
        rl.op = "reload";
        rl.vseed = plan.seed ^ 0xA70;
        exec_step(rl);
        if (stop)
            return;
    }
    Saved S;
    save_state(S);
    uint64_t hash_S = prev.hash();

    // ---- dry run
    g_disk.record_calls = true;
    g_taps.record_sql = true;
    size_t viols_before = viols.size();
    {
        Step cp = probe;
        cp.fault = FaultSpec{};
        exec_step(cp);
    }
    ++steps_executed;
    std::vector<VfsCallInfo> calls = g_disk.call_log;
    // exec_step's own observation resets the per-call counters; take them
    // from the bracket recorded by end_call()
    int K = last_call.stmts;
    uint64_t Nt = last_call.ticks, Nm = last_call.mallocs;
    std::vector<VfsCallInfo> vcalls = last_call.vfs;
    g_disk.record_calls = false;
    g_taps.record_sql = false;
    if (stop)
        return;
    bool dry_ok = last_call.valid && !last_call.threw;
    uint64_t hash_post = prev.hash();
    if (!dry_ok || viols.size() != viols_before)
    {
        probes.hit(dry_ok ? "atomic_dry_run_violates" : "atomic_probe_rejected_without_fault");
        return;  // nothing to enumerate: the call does not succeed fault-free
    }
    if (hash_post == hash_S)
        probes.hit("atomic_probe_is_noop");
    probes.hit("atomic_pairs");
    std::string opname = last_call.opname;
    Json enumj = Json::object();
    enumj.set("op", opname);
    enumj.set("family", fam());
    enumj.set("statements", K);
    enumj.set("vfs_calls", (long long)vcalls.size());
    enumj.set("ticks", (long long)Nt);
    enumj.set("mallocs", (long long)Nm);

    Rng r(plan.seed ^ 0xF00D);
    std::vector<FaultSpec> positions;
    const bool single = probe.fault.kind != FK_NONE;  // replay of one position
    const bool force_retry = plan.cfg.profile == "atomic_retry";
    const bool chain_mode = single && (plan.cfg.profile == "atomic_chain" || !probe.pre.empty());
    Step clean_probe = probe;
    clean_probe.fault = FaultSpec{};
    // F1: every statement x three codes (exhaustive)
    static const int f1codes[] = {SQLITE_BUSY, SQLITE_ERROR, SQLITE_READONLY};
    for (int k = 0; k < K; ++k)
        for (int c : f1codes)
        {
            FaultSpec f;
            f.kind = FK_STMT;
            f.pos = k;
            f.code = c;
            positions.push_back(f);
        }
    size_t n_f1 = positions.size();
    // F3: every VFS call (up to 256, sampled beyond)
    std::vector<size_t> vi;
    for (size_t i = 0; i < vcalls.size(); ++i)
        if (vcalls[i].method != VM_CLOSE)
            vi.push_back(i);
    bool f3_exhaustive = vi.size() <= 256;
    if (!f3_exhaustive)
    {
        for (size_t i = vi.size(); i > 1; --i)
            std::swap(vi[i - 1], vi[r.below(i)]);
        vi.resize(256);
        std::sort(vi.begin(), vi.end());
    }
    for (auto i : vi)
    {
        FaultSpec f;
        f.kind = FK_VFS;
        f.method = vcalls[i].method;
        f.role = vcalls[i].role;
        f.pos = vcalls[i].ordinal;
        f.code = vfs_code_for(f.method, r.next());
        positions.push_back(f);
    }
    size_t n_f3 = positions.size() - n_f1;
    // F3-persistent: the same addressed call fails and the device stays broken (that method on that file keeps failing;
    // SQLITE_FULL: nothing on the disk can grow) until the API call returns - also while the library rolls back
    std::vector<FaultSpec> persistent;
    {
        std::vector<size_t> pv;
        for (auto i : vi)
            if (vcalls[i].method == VM_WRITE || vcalls[i].method == VM_READ || vcalls[i].method == VM_SYNC ||
                vcalls[i].method == VM_TRUNCATE || vcalls[i].method == VM_LOCK || vcalls[i].method == VM_DELETE ||
                vcalls[i].method == VM_OPEN || vcalls[i].method == VM_FILESIZE)
                pv.push_back(i);
        const size_t cap = plan.cfg.profile == "atomic_chain" ? 128 : 48;
        if (pv.size() > cap)
        {
            for (size_t i = pv.size(); i > 1; --i)
                std::swap(pv[i - 1], pv[r.below(i)]);
            pv.resize(cap);
            std::sort(pv.begin(), pv.end());
        }
        for (auto i : pv)
        {
            FaultSpec f;
            f.kind = FK_VFS;
            f.method = vcalls[i].method;
            f.role = vcalls[i].role;
            f.pos = vcalls[i].ordinal;
            f.persist = 1;
            f.code = f.method == VM_WRITE ? ((r.next() & 1) ? SQLITE_FULL : SQLITE_IOERR_WRITE) : vfs_code_for(f.method, 0);
            persistent.push_back(f);
        }
    }
    // F2: every tick up to 256 positions
    {
        uint64_t cnt = std::min<uint64_t>(Nt, 256);
        for (uint64_t j = 0; j < cnt; ++j)
        {
            FaultSpec f;
            f.kind = FK_TICK;
            f.pos = (int64_t)(Nt <= 256 ? j + 1 : 1 + j * Nt / 256);
            positions.push_back(f);
        }
    }
    size_t n_f2 = positions.size() - n_f1 - n_f3;
    // F4: up to 64 seeded allocation ordinals
    {
        std::set<uint64_t> pick;
        uint64_t want = std::min<uint64_t>(Nm, 64);
        if (Nm <= 64)
            for (uint64_t j = 1; j <= Nm; ++j)
                pick.insert(j);
        else
            while (pick.size() < want)
                pick.insert(1 + r.below(Nm));
        for (auto j : pick)
        {
            FaultSpec f;
            f.kind = FK_MALLOC;
            f.pos = (int64_t)j;
            positions.push_back(f);
        }
    }
    size_t n_f4 = positions.size() - n_f1 - n_f3 - n_f2;
    // F9: at every statement boundary the second party takes a write lock on m.db (1.x: or p.db) and keeps it
    for (int k = 0; k < K; ++k)
        for (int role : {FR_MDB, FR_PDB})
        {
            if (role == FR_PDB && v2)
                continue;
            FaultSpec f;
            f.kind = FK_LOCK;
            f.pos = k;
            f.role = role;
            positions.push_back(f);
        }
    size_t n_f9 = positions.size() - n_f1 - n_f3 - n_f2 - n_f4;
    for (auto& f : persistent)
        positions.push_back(f);
    enumj.set("f3_persistent_positions", (long long)persistent.size());
    enumj.set("f9_positions", (long long)n_f9);
    enumj.set("f1_positions", (long long)n_f1);
    enumj.set("f1_exhaustive", true);
    enumj.set("f3_positions", (long long)n_f3);
    enumj.set("f3_exhaustive", f3_exhaustive);
    enumj.set("f2_positions", (long long)n_f2);
    enumj.set("f2_exhaustive", Nt <= 256);
    enumj.set("f4_positions", (long long)n_f4);
    enumj.set("f4_exhaustive", Nm <= 64);

    if (single)
    {
        positions.clear();
        if (!chain_mode)
            positions.push_back(probe.fault);
    }
    // usability after a failed attempt that left the world in S: the same call, fault-free, must succeed and give the
    // fault-free post-state; on request its effect must also be on disk after close + reload
    auto retry_and_reload = [&](const Step& failed, const char* derived_profile, bool with_reload) {
        const FaultSpec& f = failed.fault;
        size_t b2 = viols.size();
        uniq = S.uniq;
        exec_step(clean_probe);
        if (!(last_call.valid && !last_call.threw))
            report("C14", "C14|" + opname + "|" + fam() + "|unusable-after-failure|" + fault_site(f),
                   "after a failed " + opname + " the same call fails again without any fault");
        else if (prev.hash() != hash_post)
            report("C14", "C14|" + opname + "|" + fam() + "|retry-differs|" + fault_site(f),
                   "retrying " + opname + " after a failed attempt gives a different state than a first attempt");
        else if (with_reload)
        {
            // "the library stays usable": what the retry wrote must also reach the disk
            // (handles to removed entities are not carried across a reload: compare like with like)
            auto gone = [](auto& h) {
                try
                {
                    return !h->is_valid();
                }
                catch (...)
                {
                    return true;
                }
            };
            for (auto& t : tracks)
                if (t.h && (!t.live || gone(t.h)))  // a table-API remove leaves the slot "live" in L's bookkeeping
                {
                    t.h.reset();
                    t.live = false;
                }
            for (auto& c : crates)
                if (c.h && (!c.live || gone(c.h)))
                {
                    c.h.reset();
                    c.live = false;
                }
            uint64_t before_reload = observe().hash();
            Step rl;
            rl.op = "reload";
            rl.vseed = plan.seed ^ 0xD0AB1E;
            exec_step(rl);
            if (!stop && prev.hash() != before_reload)
                report("C14", "C14|" + opname + "|" + fam() + "|lost-after-reload|" + fault_site(f),
                       "after a failed " + opname + " the retried call succeeded, but its effect is gone after close and reload");
            probes.hit("atomic_retry_reloaded");
        }
        for (size_t v = b2; v < viols.size(); ++v)
        {
            Plan d = plan;
            d.cfg.profile = derived_profile;
            d.steps.back() = failed;
            derived[viols[v].key] = d.to_json();
        }
        probes.hit("atomic_retry_checked");
    };
    // ---- enumeration
    accept_post_hash = hash_post;
    have_accept_post = true;
    bool at_S = false;
    uint64_t attempts = 0, fired = 0, threw = 0, completed = 0;
    for (size_t pi = 0; pi < positions.size() && !stop; ++pi)
    {
        const FaultSpec& f = positions[pi];
        // only an F1 attempt may continue in place after an atomically failed F1 attempt; every real-path fault
        // starts from the restored image and a cold cache, exactly as its single-position replay does
        if (!at_S || f.kind != FK_STMT)
        {
            if (!restore_state(S))
                break;
            if (prev.hash() != hash_S)
            {
                stop = true;
                stop_reason = "restore did not reproduce state S";
                break;
            }
        }
        Step s = probe;
        s.fault = f;
        size_t before = viols.size();
        exec_step(s);
        ++attempts;
        bool ffired = last_call.valid && last_call.fault_fired;
        if (ffired)
            ++fired;
        if (last_call.valid && last_call.threw)
            ++threw;
        else
        {
            ++completed;
            if (last_call.valid && ffired && !stop && prev.hash() != hash_post)
                report("C14", "C14|" + opname + "|" + fam() + "|neither-before-nor-after|" + fault_site(f),
                       opname + " returned normally although a fault fired, and the state is not the one a fault-free call produces");
        }
        // record a derived plan for every new violation class
        for (size_t v = before; v < viols.size(); ++v)
        {
            Plan d = plan;
            d.cfg.profile = "atomic";
            d.steps.back() = s;
            derived[viols[v].key] = d.to_json();
        }
        bool committed_anyway = last_call.valid && last_call.threw && (f.kind == FK_TICK || f.kind == FK_VFS || f.kind == FK_MALLOC) &&
                                have_prev && prev.hash() == hash_post && hash_post != hash_S;
        if (committed_anyway)
            probes.hit("atomic_threw_but_committed");
        // an atomically failed F1 attempt leaves the world in S: continue in place
        at_S = f.kind == FK_STMT && last_call.valid && last_call.threw &&
               have_prev && prev.hash() == hash_S && viols.size() == before;
        // usability: on a seeded subset, the same call must now succeed
        if (!stop && last_call.valid && last_call.threw && viols.size() == before && !committed_anyway &&
            have_prev && prev.hash() == hash_S && (force_retry || (!single && r.chance(1, 8))))
        {
            retry_and_reload(s, "atomic_retry", force_retry || r.chance(1, 2));
            at_S = false;
        }
    }
    // ---- fault sequences: several faulted attempts of the same call in place - same connection, no restore, whatever
    // the earlier failures left behind in the pager / statement cache / transaction state - then a fault-free retry whose
    // effect must reach the disk.  Each attempt is judged exactly like a single one.
    auto run_chain = [&](const std::vector<FaultSpec>& chain) {
        if (!restore_state(S))
            return;
        if (prev.hash() != hash_S)
        {
            stop = true;
            stop_reason = "restore did not reproduce state S";
            return;
        }
        std::vector<FaultSpec> done;
        bool still_S = true;
        Step s = probe;
        for (size_t ci = 0; ci < chain.size() && !stop; ++ci)
        {
            s = probe;
            s.fault = chain[ci];
            s.pre = done;
            size_t before = viols.size();
            uniq = S.uniq;  // the attempt must generate the same arguments as the dry run did
            g_sim_clock = S.clock;
            exec_step(s);
            ++attempts;
            bool ffired = last_call.valid && last_call.fault_fired;
            if (ffired)
                ++fired;
            if (last_call.valid && last_call.threw)
                ++threw;
            else
            {
                ++completed;
                if (last_call.valid && ffired && !stop && prev.hash() != hash_post)
                    report("C14", "C14|" + opname + "|" + fam() + "|neither-before-nor-after|" + fault_site(chain[ci]),
                           opname + " returned normally although a fault fired, and the state is not the one a fault-free call produces");
            }
            for (size_t v = before; v < viols.size(); ++v)
            {
                Plan d = plan;
                d.cfg.profile = "atomic_chain";
                d.steps.back() = s;
                derived[viols[v].key] = d.to_json();
            }
            done.push_back(chain[ci]);
            if (ci > 0 && ffired)
                probes.hit("atomic_chain_later_fault_fired");
            still_S = last_call.valid && last_call.threw && have_prev && prev.hash() == hash_S && viols.size() == before;
            if (!still_S)
                break;
        }
        if (still_S && !stop)
        {
            probes.hit("atomic_chain_completed");
            retry_and_reload(s, "atomic_chain", true);
        }
    };
    if (single && chain_mode)
    {
        std::vector<FaultSpec> c = probe.pre;
        c.push_back(probe.fault);
        run_chain(c);
    }
    else if (!single && !stop)
    {
        // real-path faults (they can leave pager error state, a hot journal or a half-finished rollback behind) first,
        // any kind afterwards
        std::vector<size_t> real;
        for (size_t i = 0; i < positions.size(); ++i)
            if (positions[i].kind == FK_VFS || positions[i].kind == FK_TICK || positions[i].kind == FK_MALLOC)
                real.push_back(i);
        int n_chains = positions.empty() ? 0 : (plan.cfg.profile == "atomic_chain" ? 40 : 6);
        uint64_t chains_run = 0;
        for (int c = 0; c < n_chains && !stop && !real.empty(); ++c)
        {
            std::vector<FaultSpec> chain;
            size_t len = 2 + r.below(2);
            chain.push_back(positions[real[r.below(real.size())]]);
            while (chain.size() < len)
                chain.push_back(r.chance(2, 3) ? positions[real[r.below(real.size())]] : positions[r.below(positions.size())]);
            run_chain(chain);
            ++chains_run;
        }
        enumj.set("fault_sequences", (long long)chains_run);
        probes.hit("atomic_chains", chains_run);
    }
    enumj.set("attempts", (long long)attempts);
    enumj.set("faults_fired", (long long)fired);
    enumj.set("threw", (long long)threw);
    enumj.set("completed", (long long)completed);
    have_accept_post = false;
    enumeration = enumj;
    have_enumeration = !single;
    probes.hit("atomic_attempts", attempts);
    Rng rr(plan.seed ^ 0xC105E);
    close_all(&rr);
}

std::string fault_site(const FaultSpec& f)
{
    switch (f.kind)
    {
        case FK_STMT: return "F1";
        case FK_TICK: return "F2";
        case FK_MALLOC: return "F4";
        case FK_LOCK: return std::string("F9:lock-held:") + file_role_name(f.role);
        case FK_VFS:
            return std::string("F3:") + vfs_method_name(f.method) + ":" + file_role_name(f.role) + (f.persist ? ":persist" : "");
        default: return "none";
    }
}

}  // namespace djsim
