#include "taps.hpp"

#include <sqlite3.h>
#include <zlib.h>

#include <algorithm>
#include <chrono>
#include <cstdio>
#include <cstring>
#include <strings.h>
#include <string>

#include "simdisk.hpp"
#include "util.hpp"

namespace djsim
{
Taps g_taps;
uint64_t g_uuid_counter = 0;
static Rng g_rand_rng{777};

void Taps::begin_call()
{
    stmt_count = 0;
    step_errors = 0;
    last_error_code = 0;
    ticks = 0;
    mallocs = 0;
    inflate_calls = 0;
    max_alloc = 0;
    prepares = 0;
    sql_log.clear();
    tick_watchdog_fired = false;
    inflate_nonterm = false;
    inflate_noprogress = 0;
}

void Taps::disarm()
{
    f1.armed = f2.armed = f4.armed = f9.armed = false;
}

int64_t Taps::total_changes() const
{
    int64_t t = 0;
    for (auto* c : lib_conns)
        t += sqlite3_total_changes(c);
    return t;
}

void taps_reseed(uint64_t seed)
{
    g_rand_rng.reseed(seed ^ 0x5151515151ull);
    g_uuid_counter = 0;
    simdisk_reseed(seed ^ 0xABCDEFull);
    // reset SQLite's own PRNG so that it reseeds from the VFS
    sqlite3_randomness(0, nullptr);
}

// ------------------------------------------------------------ progress
static int progress_cb(void*)
{
    if (in_harness())
        return 0;
    auto& t = g_taps;
    ++t.ticks;
    ++t.total_ticks;
    if (t.f2.armed && !t.f2.fired && t.ticks == t.f2.tick)
    {
        t.f2.fired = true;
        return 1;
    }
    if (t.ticks > t.tick_limit)
    {
        t.tick_watchdog_fired = true;
        return 1;
    }
    return 0;
}

static int auto_ext(sqlite3* db, const char**, const void*)
{
    if (in_harness())
        return SQLITE_OK;
    g_taps.lib_conns.push_back(db);
    g_taps.conns_opened++;
    sqlite3_progress_handler(db, 8, progress_cb, nullptr);
    return SQLITE_OK;
}

// ------------------------------------------------------------ malloc
static sqlite3_mem_methods g_defmem;
static void* m_malloc(int n)
{
    auto& t = g_taps;
    if (!in_harness())
    {
        ++t.mallocs;
        ++t.total_mallocs;
        if (t.f4.armed && !t.f4.fired && t.mallocs == t.f4.nth)
        {
            t.f4.fired = true;
            return nullptr;
        }
    }
    return g_defmem.xMalloc(n);
}
static void m_free(void* p) { g_defmem.xFree(p); }
static void* m_realloc(void* p, int n)
{
    auto& t = g_taps;
    if (!in_harness())
    {
        ++t.mallocs;
        ++t.total_mallocs;
        if (t.f4.armed && !t.f4.fired && t.mallocs == t.f4.nth)
        {
            t.f4.fired = true;
            return nullptr;
        }
    }
    return g_defmem.xRealloc(p, n);
}
static int m_size(void* p) { return g_defmem.xSize(p); }
static int m_roundup(int n) { return g_defmem.xRoundup(n); }
static int m_init(void* a) { return g_defmem.xInit(a); }
static void m_shutdown(void* a) { g_defmem.xShutdown(a); }

void taps_install()
{
    static bool done = false;
    if (done)
        return;
    done = true;
    sqlite3_config(SQLITE_CONFIG_GETMALLOC, &g_defmem);
    sqlite3_mem_methods mine = {m_malloc,  m_free, m_realloc,  m_size,
                                m_roundup, m_init, m_shutdown, g_defmem.pAppData};
    sqlite3_config(SQLITE_CONFIG_MALLOC, &mine);
    sqlite3_config(SQLITE_CONFIG_LOOKASIDE, 0, 0);
    sqlite3_config(SQLITE_CONFIG_SINGLETHREAD);
    sqlite3_initialize();
    simdisk_register();
    sqlite3_auto_extension((void (*)(void))auto_ext);
}

}  // namespace djsim

// ============================================================ link-time wraps
using namespace djsim;

extern "C" {
int __real_sqlite3_step(sqlite3_stmt*);
int __real_sqlite3_prepare_v2(sqlite3*, const char*, int, sqlite3_stmt**,
                              const char**);
int __real_sqlite3_close_v2(sqlite3*);
int __real_inflate(z_streamp, int);

int __wrap_sqlite3_step(sqlite3_stmt* stmt)
{
    if (in_harness())
        return __real_sqlite3_step(stmt);
    auto& t = g_taps;
    bool first = !sqlite3_stmt_busy(stmt);
    if (first)
    {
        int ord = t.stmt_count++;
        ++t.total_stmts;
        if (t.record_sql)
        {
            const char* s = sqlite3_sql(stmt);
            t.sql_log.emplace_back(s ? s : "");
        }
        if (t.f9.armed && !t.f9.attempted && ord == t.f9.ordinal && t.contention_hook)
        {
            // the scheduler lets the second party run here, between two statements of the library's call
            t.f9.attempted = true;
            t.f9.fired = t.contention_hook();
        }
        // a ROLLBACK is never refused: SQLite rolls back even when it reports an error, so "ROLLBACK failed and the
        // transaction stayed open" is not a state a real deployment meets
        const char* q = sqlite3_sql(stmt);
        const bool is_rollback = q && strncasecmp(q, "ROLLBACK", 8) == 0;
        if (t.f1.armed && !t.f1.fired && ord == t.f1.ordinal && !is_rollback)
        {
            t.f1.fired = true;
            ++t.step_errors;
            t.last_error_code = t.f1.code;
            return t.f1.code;
        }
    }
    int rc = __real_sqlite3_step(stmt);
    if (rc != SQLITE_ROW && rc != SQLITE_DONE && rc != SQLITE_OK)
    {
        ++t.step_errors;
        t.last_error_code = rc;
    }
    return rc;
}

int __wrap_sqlite3_prepare_v2(sqlite3* db, const char* sql, int n,
                              sqlite3_stmt** out, const char** tail)
{
    if (!in_harness())
        ++g_taps.prepares;
    int rc = __real_sqlite3_prepare_v2(db, sql, n, out, tail);
    if (!in_harness() && rc != SQLITE_OK)
    {
        ++g_taps.step_errors;
        g_taps.last_error_code = rc;
    }
    return rc;
}

int __wrap_sqlite3_close_v2(sqlite3* db)
{
    auto& v = g_taps.lib_conns;
    auto it = std::find(v.begin(), v.end(), db);
    if (it != v.end())
    {
        v.erase(it);
        g_taps.conns_closed++;
    }
    return __real_sqlite3_close_v2(db);
}

int __wrap_inflate(z_streamp strm, int flush)
{
    auto& t = g_taps;
    ++t.inflate_calls;
    uInt in_before = strm->avail_in;
    uLong out_before = strm->total_out;
    int rc = __real_inflate(strm, flush);
    if (in_before == 0 && strm->total_out == out_before && rc != Z_STREAM_END)
    {
        if (++t.inflate_noprogress >= 3)
        {
            // The caller keeps calling with no input and no progress: a state
            // its loop can never leave.  Report and break the loop.
            t.inflate_nonterm = true;
            return Z_DATA_ERROR;
        }
    }
    else
    {
        t.inflate_noprogress = 0;
    }
    if (t.inflate_budget && t.inflate_calls > t.inflate_budget)
    {
        t.inflate_nonterm = true;
        return Z_DATA_ERROR;
    }
    return rc;
}

// std::chrono::system_clock::now()
int64_t __wrap__ZNSt6chrono3_V212system_clock3nowEv()
{
    ++g_clock_reads;
    return g_sim_clock * 1000000000LL;
}
}  // extern "C"

// djinterop::util::generate_random_uuid() / generate_random_int64()
std::string djsim_wrap_uuid() __asm__(
    "__wrap__ZN9djinterop4util20generate_random_uuidB5cxx11Ev");
std::string djsim_wrap_uuid()
{
    uint64_t a = g_rand_rng.next(), b = g_rand_rng.next();
    ++g_uuid_counter;
    char buf[40];
    snprintf(buf, sizeof buf, "%08x-%04x-4%03x-%04x-%012llx",
             (unsigned)(a >> 32), (unsigned)((a >> 16) & 0xffff),
             (unsigned)(a & 0xfff), (unsigned)(0x8000 | ((b >> 48) & 0x3fff)),
             (unsigned long long)(b & 0xffffffffffffull));
    return buf;
}

int64_t djsim_wrap_int64() __asm__(
    "__wrap__ZN9djinterop4util21generate_random_int64Ev");
int64_t djsim_wrap_int64()
{
    return (int64_t)((1ull << 61) + (g_rand_rng.next() >> 3) % (1ull << 61));
}

// ------------------------------------------------------------ heap request tap
// Largest single request per API call: a decoder that asks for gigabytes because a
// corrupted length field says so is caught deterministically, not by a timeout.
#if defined(__SANITIZE_ADDRESS__)
extern "C" void __sanitizer_malloc_hook(const volatile void*, size_t size)
{
    if (size > djsim::g_taps.max_alloc)
        djsim::g_taps.max_alloc = size;
}
#else
#include <new>
void* operator new(std::size_t n)
{
    if (n > djsim::g_taps.max_alloc)
        djsim::g_taps.max_alloc = n;
    void* p = malloc(n ? n : 1);
    if (!p)
        throw std::bad_alloc();
    return p;
}
void operator delete(void* p) noexcept { free(p); }
void operator delete(void* p, std::size_t) noexcept { free(p); }
#endif
