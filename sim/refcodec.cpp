#include "refcodec.hpp"

#include <zlib.h>

#include <cstring>

namespace ref
{
namespace
{
struct W
{
    Bytes b;
    void u8(uint8_t v) { b.push_back(v); }
    void be(uint64_t v, int n)
    {
        for (int i = n - 1; i >= 0; --i)
            b.push_back((uint8_t)(v >> (8 * i)));
    }
    void le(uint64_t v, int n)
    {
        for (int i = 0; i < n; ++i)
            b.push_back((uint8_t)(v >> (8 * i)));
    }
    static uint64_t bits(double d)
    {
        uint64_t x;
        memcpy(&x, &d, 8);
        return x;
    }
    void f64be(double d) { be(bits(d), 8); }
    void f64le(double d) { le(bits(d), 8); }
    void raw(const Bytes& x) { b.insert(b.end(), x.begin(), x.end()); }
    void str(const std::string& s) { b.insert(b.end(), s.begin(), s.end()); }
};

struct R
{
    const Bytes& b;
    size_t pos = 0;
    bool ok = true;
    explicit R(const Bytes& x) : b(x) {}
    size_t left() const { return b.size() - pos; }
    bool need(size_t n)
    {
        if (!ok || left() < n)
        {
            ok = false;
            return false;
        }
        return true;
    }
    uint8_t u8()
    {
        if (!need(1))
            return 0;
        return b[pos++];
    }
    uint64_t be(int n)
    {
        if (!need((size_t)n))
            return 0;
        uint64_t v = 0;
        for (int i = 0; i < n; ++i)
            v = (v << 8) | b[pos++];
        return v;
    }
    uint64_t le(int n)
    {
        if (!need((size_t)n))
            return 0;
        uint64_t v = 0;
        for (int i = 0; i < n; ++i)
            v |= (uint64_t)b[pos++] << (8 * i);
        return v;
    }
    static double dbl(uint64_t x)
    {
        double d;
        memcpy(&d, &x, 8);
        return d;
    }
    double f64be() { return dbl(be(8)); }
    double f64le() { return dbl(le(8)); }
    std::string str(size_t n)
    {
        if (!need(n))
            return {};
        std::string s((const char*)&b[pos], n);
        pos += n;
        return s;
    }
    Bytes rest()
    {
        Bytes x(b.begin() + (long)pos, b.end());
        pos = b.size();
        return x;
    }
};
}  // namespace

Bytes zwrap(const Bytes& payload, int level)
{
    Bytes out;
    uint32_t n = (uint32_t)payload.size();
    out.push_back((uint8_t)(n >> 24));
    out.push_back((uint8_t)(n >> 16));
    out.push_back((uint8_t)(n >> 8));
    out.push_back((uint8_t)n);
    uLongf cap = compressBound((uLong)payload.size());
    Bytes z(cap);
    static const Bytef dummy = 0;
    compress2(z.data(), &cap, payload.empty() ? &dummy : payload.data(), (uLong)payload.size(), level);
    z.resize(cap);
    out.insert(out.end(), z.begin(), z.end());
    return out;
}

bool zunwrap(const Bytes& blob, Bytes& payload, std::string& err)
{
    payload.clear();
    if (blob.empty())
        return true;
    if (blob.size() < 4)
    {
        err = "blob shorter than the 4-byte length prefix";
        return false;
    }
    uint32_t n = ((uint32_t)blob[0] << 24) | ((uint32_t)blob[1] << 16) | ((uint32_t)blob[2] << 8) | blob[3];
    if (n == 0)
        return true;
    if (n > (1u << 28))
    {
        err = "absurd length prefix";
        return false;
    }
    payload.resize(n);
    uLongf produced = n;
    uLong consumed = (uLong)(blob.size() - 4);
    int rc = uncompress2(payload.data(), &produced, blob.data() + 4, &consumed);
    if (rc == Z_OK)
        rc = Z_STREAM_END;
    else if (rc == Z_BUF_ERROR)
        produced = n + 1;  // output did not fit: inflated length exceeds the prefix
    if (rc != Z_STREAM_END && rc != Z_BUF_ERROR)
    {
        err = "zlib stream does not end cleanly (rc " + std::to_string(rc) + ")";
        return false;
    }
    if (produced != n)
    {
        err = "length prefix " + std::to_string(n) + " differs from inflated length " + std::to_string(produced);
        return false;
    }
    if (consumed != blob.size() - 4)
    {
        err = "trailing bytes after the zlib stream";
        return false;
    }
    return true;
}

// ------------------------------------------------------------------ beat data
static void enc_grid(W& w, const std::vector<Marker>& g)
{
    w.be((uint64_t)g.size(), 8);
    for (auto& m : g)
    {
        w.f64le(m.offset);
        w.le((uint64_t)m.beat, 8);
        w.le((uint32_t)m.beats_to_next, 4);
        w.le((uint32_t)m.unknown, 4);
    }
}
static bool dec_grid(R& r, std::vector<Marker>& g, std::string& err)
{
    int64_t n = (int64_t)r.be(8);
    if (!r.ok || n < 0 || (uint64_t)n > r.left() / 24)
    {
        err = "beat grid count does not fit the payload";
        return false;
    }
    g.resize((size_t)n);
    for (auto& m : g)
    {
        m.offset = r.f64le();
        m.beat = (int64_t)r.le(8);
        m.beats_to_next = (int32_t)r.le(4);
        m.unknown = (int32_t)r.le(4);
    }
    return r.ok;
}
Bytes enc_beat(const BeatData& v)
{
    W w;
    w.f64be(v.sample_rate);
    w.f64be(v.samples);
    w.u8(v.is_set);
    enc_grid(w, v.def);
    enc_grid(w, v.adj);
    w.raw(v.extra);
    return w.b;
}
bool dec_beat(const Bytes& p, BeatData& v, std::string& err)
{
    R r(p);
    v.sample_rate = r.f64be();
    v.samples = r.f64be();
    v.is_set = r.u8();
    if (!r.ok)
    {
        err = "beat data shorter than its fixed header";
        return false;
    }
    if (!dec_grid(r, v.def, err) || !dec_grid(r, v.adj, err))
        return false;
    v.extra = r.rest();
    return true;
}

// ------------------------------------------------------------------ quick cues
Bytes enc_cues(const QuickCues& v)
{
    W w;
    w.be((uint64_t)v.cues.size(), 8);
    for (auto& c : v.cues)
    {
        w.u8((uint8_t)c.label.size());
        w.str(c.label);
        w.f64be(c.offset);
        w.u8(c.a);
        w.u8(c.r);
        w.u8(c.g);
        w.u8(c.b);
    }
    w.f64be(v.adj_main);
    w.u8(v.is_adj);
    w.f64be(v.def_main);
    w.raw(v.extra);
    return w.b;
}
bool dec_cues(const Bytes& p, QuickCues& v, std::string& err)
{
    R r(p);
    int64_t n = (int64_t)r.be(8);
    if (!r.ok || n < 0 || (uint64_t)n > r.left() / 13)
    {
        err = "quick cue count does not fit the payload";
        return false;
    }
    v.cues.resize((size_t)n);
    for (auto& c : v.cues)
    {
        uint8_t len = r.u8();
        c.label = r.str(len);
        c.offset = r.f64be();
        c.a = r.u8();
        c.r = r.u8();
        c.g = r.u8();
        c.b = r.u8();
    }
    v.adj_main = r.f64be();
    v.is_adj = r.u8();
    v.def_main = r.f64be();
    if (!r.ok)
    {
        err = "quick cues payload truncated";
        return false;
    }
    v.extra = r.rest();
    return true;
}

// ------------------------------------------------------------------ loops
Bytes enc_loops(const Loops& v)
{
    W w;
    w.le((uint64_t)v.loops.size(), 8);
    for (auto& l : v.loops)
    {
        w.u8((uint8_t)l.label.size());
        w.str(l.label);
        w.f64le(l.start);
        w.f64le(l.end);
        w.u8(l.start_set);
        w.u8(l.end_set);
        w.u8(l.a);
        w.u8(l.r);
        w.u8(l.g);
        w.u8(l.b);
    }
    w.raw(v.extra);
    return w.b;
}
bool dec_loops(const Bytes& p, Loops& v, std::string& err)
{
    R r(p);
    int64_t n = (int64_t)r.le(8);
    if (!r.ok || n < 0 || (uint64_t)n > r.left() / 23)
    {
        err = "loop count does not fit the payload";
        return false;
    }
    v.loops.resize((size_t)n);
    for (auto& l : v.loops)
    {
        uint8_t len = r.u8();
        l.label = r.str(len);
        l.start = r.f64le();
        l.end = r.f64le();
        l.start_set = r.u8();
        l.end_set = r.u8();
        l.a = r.u8();
        l.r = r.u8();
        l.g = r.u8();
        l.b = r.u8();
    }
    if (!r.ok)
    {
        err = "loops payload truncated";
        return false;
    }
    v.extra = r.rest();
    return true;
}

// ------------------------------------------------------------------ waveforms
Bytes enc_overview(const Overview& v)
{
    W w;
    w.be((uint64_t)v.n1, 8);
    w.be((uint64_t)v.n2, 8);
    w.f64be(v.samples_per_point);
    for (auto& p : v.pts)
    {
        w.u8(p[0]);
        w.u8(p[1]);
        w.u8(p[2]);
    }
    w.u8(v.max[0]);
    w.u8(v.max[1]);
    w.u8(v.max[2]);
    w.raw(v.extra);
    return w.b;
}
bool dec_overview(const Bytes& p, Overview& v, std::string& err)
{
    R r(p);
    v.n1 = (int64_t)r.be(8);
    v.n2 = (int64_t)r.be(8);
    v.samples_per_point = r.f64be();
    if (!r.ok || v.n1 != v.n2 || v.n1 < 0 || (uint64_t)v.n1 > r.left() / 3)
    {
        err = "overview waveform header inconsistent";
        return false;
    }
    v.pts.resize((size_t)v.n1);
    for (auto& q : v.pts)
    {
        q[0] = r.u8();
        q[1] = r.u8();
        q[2] = r.u8();
    }
    v.max[0] = r.u8();
    v.max[1] = r.u8();
    v.max[2] = r.u8();
    if (!r.ok)
    {
        err = "overview waveform lacks the trailing maximum entry";
        return false;
    }
    v.extra = r.rest();
    return true;
}
Bytes enc_highres(const HighRes& v)
{
    W w;
    w.be((uint64_t)v.n1, 8);
    w.be((uint64_t)v.n2, 8);
    w.f64be(v.samples_per_entry);
    for (auto& p : v.pts)
        for (auto x : p)
            w.u8(x);
    for (auto x : v.max)
        w.u8(x);
    return w.b;
}
bool dec_highres(const Bytes& p, HighRes& v, std::string& err)
{
    R r(p);
    v.n1 = (int64_t)r.be(8);
    v.n2 = (int64_t)r.be(8);
    v.samples_per_entry = r.f64be();
    if (!r.ok || v.n1 != v.n2 || v.n1 < 0 || (uint64_t)v.n1 > r.left() / 6)
    {
        err = "high-resolution waveform header inconsistent";
        return false;
    }
    v.pts.resize((size_t)v.n1);
    for (auto& q : v.pts)
        for (auto& x : q)
            x = r.u8();
    for (auto& x : v.max)
        x = r.u8();
    if (!r.ok || r.left() != 0)
    {
        err = "high-resolution waveform length does not match its count";
        return false;
    }
    return true;
}

// ------------------------------------------------------------------ track data
Bytes enc_track2(const TrackData2& v)
{
    W w;
    w.f64be(v.sample_rate);
    w.be((uint64_t)v.samples, 8);
    w.be((uint32_t)v.key, 4);
    w.f64be(v.loud_low);
    w.f64be(v.loud_mid);
    w.f64be(v.loud_high);
    w.raw(v.extra);
    return w.b;
}
bool dec_track2(const Bytes& p, TrackData2& v, std::string& err)
{
    R r(p);
    v.sample_rate = r.f64be();
    v.samples = (int64_t)r.be(8);
    v.key = (int32_t)r.be(4);
    v.loud_low = r.f64be();
    v.loud_mid = r.f64be();
    v.loud_high = r.f64be();
    if (!r.ok)
    {
        err = "track data shorter than 44 bytes";
        return false;
    }
    v.extra = r.rest();
    return true;
}
Bytes enc_track1(const TrackData1& v)
{
    W w;
    w.f64be(v.sample_rate);
    w.be((uint64_t)v.samples, 8);
    w.f64be(v.loudness);
    w.be((uint32_t)v.key, 4);
    return w.b;
}
bool dec_track1(const Bytes& p, TrackData1& v, std::string& err)
{
    R r(p);
    v.sample_rate = r.f64be();
    v.samples = (int64_t)r.be(8);
    v.loudness = r.f64be();
    v.key = (int32_t)r.be(4);
    if (!r.ok || r.left() != 0)
    {
        err = "track data is not exactly 28 bytes";
        return false;
    }
    return true;
}

}  // namespace ref
