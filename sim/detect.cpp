// C13: schema and layout detection.  Between close and reload the second party
// rewrites the stored version triple, the 1.18.0 variant marker and the file
// layout on the simulated disk; load_database / database_exists are then
// compared with a decision table written from the statement.
#include <algorithm>

#include "rawdb.hpp"
#include "world.hpp"

namespace djsim
{
namespace v2ns = djinterop::engine::v2;
namespace
{
struct Triple
{
    int maj, min, pat;
};
struct Supported
{
    Triple t;
    int schema_index;  // index into eng::supported_schemas; 1.18.0: desktop = 9, os = 10
};
const Supported kSupported[] = {
    {{1, 6, 0}, 0},  {{1, 7, 1}, 1},  {{1, 9, 1}, 2},   {{1, 11, 1}, 3},  {{1, 13, 0}, 4},  {{1, 13, 1}, 5},
    {{1, 13, 2}, 6}, {{1, 15, 0}, 7}, {{1, 17, 0}, 8},  {{1, 18, 0}, 9},  {{2, 18, 0}, 11}, {{2, 20, 1}, 12},
    {{2, 20, 2}, 13}, {{2, 20, 3}, 14}, {{2, 21, 0}, 15}, {{2, 21, 1}, 16}, {{2, 21, 2}, 17},
};

// -1: not supported
int lookup(const Triple& t)
{
    for (auto& s : kSupported)
        if (s.t.maj == t.maj && s.t.min == t.min && s.t.pat == t.pat)
            return s.schema_index;
    return -1;
}

void copy_file(const std::string& from, const std::string& to)
{
    auto it = g_disk.files.find(from);
    if (it == g_disk.files.end())
        return;
    auto fd = std::make_shared<FileData>();
    fd->bytes = it->second->bytes;
    g_disk.files[to] = fd;
}
}  // namespace

bool World::exec_detect_op(const Step& s)
{
    if (s.op != "x_version")
        return false;
    auto arg = [&](size_t i) { return i < s.a.size() ? s.a[i] : 0; };
    if (!db || !plan.cfg.on_disk)
        return true;
    Rng r(s.vseed ^ 0xDE7EC7ull);
    // ---- close everything, remember the undamaged disk
    for (auto& t : tracks)
        if (!t.live)
            t.h.reset();
    for (auto& c : crates)
        if (!c.live)
            c.h.reset();
    close_all(&r);
    if (g_disk.open_handles() != 0)
    {
        stop = true;
        stop_reason = "files left open after close";
        return true;
    }
    DiskImage img = g_disk.snapshot();
    log.u64(g_disk.image_hash());
    const std::string legacy_m = dir + "/m.db", legacy_p = dir + "/p.db", d2dir = dir + "/Database2", d2_m = d2dir + "/m.db";
    const std::string own_m = v2 ? d2_m : legacy_m;

    // ---- the stored triple
    Triple t;
    {
        unsigned k = (unsigned)((uint64_t)arg(0) % 10);
        const Supported& base = kSupported[(uint64_t)arg(1) % (sizeof kSupported / sizeof *kSupported)];
        t = base.t;
        switch (k)
        {
            case 0: break;  // a supported triple (possibly of another version than the file's)
            case 1: t.pat += 1; break;
            case 2: t.pat -= 1; break;
            case 3: t.min += 1; break;
            case 4: t.min -= 1; break;
            case 5: t.maj += 1; break;
            case 6: t.maj -= 1; break;
            case 7:  // anywhere in the box
                t.maj = (int)r.below(5);
                t.min = (int)r.below(23);
                t.pat = (int)r.below(5);
                break;
            case 8:  // far outside
            {
                static const int far[] = {-1, 100, 2147483647, -2147483647, 255, 65536};
                t.maj = r.chance(1, 2) ? far[r.below(6)] : t.maj;
                t.min = r.chance(1, 2) ? far[r.below(6)] : t.min;
                t.pat = r.chance(1, 2) ? far[r.below(6)] : t.pat;
                break;
            }
            default:  // the library's own triple, untouched
            {
                for (auto& sp : kSupported)
                    if (sp.schema_index == plan.cfg.schema || (plan.cfg.schema == 10 && sp.schema_index == 9))
                        t = sp.t;
                break;
            }
        }
    }
    bool marker_numeric = false;
    bool flip_marker = false;
    {
        HDb d;
        if (!d.open(own_m, false))
        {
            note("x_version: cannot open " + own_m + ": " + d.err);
            g_disk.restore(img);
            reload();
            return true;
        }
        d.run("UPDATE Information SET schemaVersionMajor = ?, schemaVersionMinor = ?, schemaVersionPatch = ?",
              {HDb::Bind::Int(t.maj), HDb::Bind::Int(t.min), HDb::Bind::Int(t.pat)});
        // the variant marker: declared type of Track.isExternalTrack
        std::string type;
        d.run("PRAGMA table_info('Track')", {}, [&](sqlite3_stmt* st) {
            if (HDb::text(st, 1) == "isExternalTrack")
                type = HDb::text(st, 2);
        });
        marker_numeric = type == "NUMERIC";
        flip_marker = !v2 && !type.empty() && (arg(2) % 4) == 0;
        if (flip_marker)
        {
            std::string from = "[isExternalTrack] " + type;
            std::string to = std::string("[isExternalTrack] ") + (marker_numeric ? (r.chance(1, 2) ? "INTEGER" : "BOOLEAN") : "NUMERIC");
            d.exec("PRAGMA writable_schema = ON");
            d.run("UPDATE sqlite_master SET sql = replace(sql, ?, ?) WHERE name = 'Track' AND type = 'table'",
                  {HDb::Bind::Text(from), HDb::Bind::Text(to)});
            d.exec("PRAGMA writable_schema = OFF");
        }
    }
    if (flip_marker)
    {
        // read the marker back through a fresh connection: that is what the loader will see
        HDb d;
        if (d.open(own_m, true))
        {
            std::string type;
            d.run("PRAGMA table_info('Track')", {}, [&](sqlite3_stmt* st) {
                if (HDb::text(st, 1) == "isExternalTrack")
                    type = HDb::text(st, 2);
            });
            marker_numeric = type == "NUMERIC";
            probes.hit("variant_marker_flipped");
        }
    }

    // ---- the layout
    enum Layout
    {
        L_OWN,      // untouched: the layout the library was created with
        L_NONE,     // directory exists, no database file
        L_BOTH,     // m.db and Database2/m.db
        L_MISSING,  // directory does not exist
        L_SWAPPED   // the file moved to the other layout's place
    };
    Layout layout = L_OWN;
    switch ((uint64_t)arg(3) % 12)
    {
        case 0: layout = L_NONE; break;
        case 1: layout = L_BOTH; break;
        case 2: layout = L_MISSING; break;
        case 3: layout = L_SWAPPED; break;
        default: break;
    }
    std::string target = dir;
    bool legacy_present = !v2, d2_present = v2;
    if (layout == L_NONE)
    {
        g_disk.files.erase(legacy_m);
        g_disk.files.erase(legacy_p);
        g_disk.files.erase(d2_m);
        if (r.chance(1, 2))
            g_disk.dirs.erase(d2dir);
        legacy_present = d2_present = false;
    }
    else if (layout == L_BOTH)
    {
        if (v2)
        {
            copy_file(d2_m, legacy_m);
            if (r.chance(1, 2))
                copy_file(d2_m, legacy_p);
        }
        else
        {
            g_disk.dirs.insert(d2dir);
            copy_file(legacy_m, d2_m);
        }
        legacy_present = d2_present = true;
    }
    else if (layout == L_MISSING)
    {
        target = std::string(kRoot) + "/nowhere" + std::to_string(uniq++);
        legacy_present = d2_present = false;
    }
    else if (layout == L_SWAPPED)
    {
        if (v2)
        {
            copy_file(d2_m, legacy_m);
            copy_file(d2_m, legacy_p);
            g_disk.files.erase(d2_m);
            legacy_present = true;
            d2_present = false;
        }
        else
        {
            g_disk.dirs.insert(d2dir);
            copy_file(legacy_m, d2_m);
            g_disk.files.erase(legacy_m);
            g_disk.files.erase(legacy_p);
            legacy_present = false;
            d2_present = true;
        }
    }

    // ---- expectation (Appendix B of DESIGN.md)
    int sup = lookup(t);
    if (sup == 9 && !marker_numeric)
        sup = 10;
    enum Expect
    {
        E_NOT_FOUND,
        E_SCHEMA,       // exactly schema `sup`
        E_UNSUPPORTED,  // unsupported_database
        E_SILENT        // statement silent: the mapped schema or any std::exception
    };
    Expect ex;
    bool is3 = t.maj == 3 && t.min == 0 && t.pat == 0;
    if (layout == L_MISSING || legacy_present == d2_present)
        ex = E_NOT_FOUND;
    else if (legacy_present)
        ex = sup >= 0 && sup <= 10 ? E_SCHEMA : ((sup >= 11 || is3) ? E_SILENT : E_UNSUPPORTED);
    else
        ex = sup >= 11 ? E_SCHEMA : ((sup >= 0 || is3) ? E_SILENT : E_UNSUPPORTED);

    std::string tri = std::to_string(t.maj) + "." + std::to_string(t.min) + "." + std::to_string(t.pat);
    static const char* lname[] = {"own", "none", "both", "missing", "swapped"};
    std::string where = std::string(legacy_present ? "legacy" : "") + (d2_present ? "+db2" : "") + (layout == L_MISSING ? "missing-dir" : "");
    note("x_version triple " + tri + " layout " + lname[layout] + " (" + where + ")" + (flip_marker ? " marker flipped" : ""));
    log.str("x_version " + tri + " " + lname[layout]);
    gate_log.str("x_version " + tri + " " + lname[layout]);
    probes.hit("detections");
    probes.hit(std::string("detect_layout_") + lname[layout]);
    static const char* ename[] = {"not_found", "schema", "unsupported", "silent"};
    probes.hit(std::string("detect_expect_") + ename[ex]);
    {
        Hasher h;
        h.str(tri);
        h.str(lname[layout]);
        h.u64((uint64_t)plan.cfg.schema);
        h.u64(marker_numeric);
        state_hashes.insert(h.value());
    }

    // ---- load_database
    std::string F = fam();
    const uint64_t image_probe = g_disk.image_hash(true);
    {
        eng::engine_schema loaded = static_cast<eng::engine_schema>(12345);
        std::optional<dj::database> got;
        std::string vname;
        bool nf = false, unsup = false;
        Outcome o = call(FaultSpec{}, [&] {
            try
            {
                got = eng::load_database(target, loaded);
                vname = got->version_name();
            }
            catch (const dj::database_not_found&)
            {
                nf = true;
                throw;
            }
            catch (const dj::unsupported_database&)
            {
                unsup = true;
                throw;
            }
        });
        got.reset();
        std::string outcome = o.threw ? (nf ? "database_not_found" : unsup ? "unsupported_database" : o.exc) : "schema " + std::to_string((int)loaded);
        note("  load_database -> " + outcome);
        gate_log.str(outcome);
        std::string ctx = "stored triple " + tri + ", layout " + where + ": load_database gave " + outcome;
        switch (ex)
        {
            case E_NOT_FOUND:
                if (!nf)
                    report("C13", "C13|load|" + std::string(lname[layout]) + "|expected-not-found", ctx + ", expected database_not_found");
                break;
            case E_UNSUPPORTED:
                if (!unsup)
                    report("C13", std::string("C13|load|") + (o.threw ? "wrong-exception" : "unsupported-accepted") + "|" + (legacy_present ? "legacy" : "db2"),
                           ctx + ", expected unsupported_database");
                break;
            case E_SCHEMA:
                if (o.threw)
                    report("C13", std::string("C13|load|supported-rejected|") + (legacy_present ? "legacy" : "db2"), ctx + ", expected schema " + eng::to_string(eng::supported_schemas[(size_t)sup]));
                else
                {
                    if (loaded != eng::supported_schemas[(size_t)sup])
                        report("C13", std::string("C13|load|misidentified|") + (legacy_present ? "legacy" : "db2"),
                               ctx + ", expected " + eng::to_string(eng::supported_schemas[(size_t)sup]));
                    if (vname != eng::to_string(eng::supported_schemas[(size_t)sup]))
                        report("C13", std::string("C13|version_name|misidentified|") + (legacy_present ? "legacy" : "db2"),
                               ctx + ", version_name() = " + vname);
                }
                break;
            case E_SILENT:
                if (!o.threw && sup >= 0 && loaded != eng::supported_schemas[(size_t)sup])
                    report("C13", "C13|load|misidentified|cross-layout", ctx + ", expected " + eng::to_string(eng::supported_schemas[(size_t)sup]) + " or an exception");
                if (!o.threw && sup < 0 && !(is3 && loaded == eng::engine_schema::schema_3_0_0))
                    report("C13", "C13|load|misidentified|cross-layout", ctx);
                break;
        }
        if (o.non_std)
            report("C13", "C13|load|non-std-exception", ctx);
    }
    // ---- database_exists
    {
        bool exists = false;
        Outcome o = call(FaultSpec{}, [&] { exists = eng::database_exists(target); });
        gate_log.str(o.threw ? "exists threw:" + o.exc : (exists ? "exists" : "absent"));
        if (ex == E_NOT_FOUND)
        {
            if (o.threw)
                report("C13", "C13|database_exists|threw-where-absent", "database_exists threw " + o.exc + " for layout " + where);
            else if (exists)
                report("C13", "C13|database_exists|true-where-absent", "database_exists is true for layout " + where);
        }
        else if (ex == E_SCHEMA)
        {
            if (o.threw || !exists)
                report("C13", "C13|database_exists|false-where-present", "database_exists " + (o.threw ? "threw " + o.exc : std::string("is false")) + " for a supported library");
        }
    }
    // ---- the second public entry point: the 2.x table-API library
    {
        bool exists = false;
        Outcome oe = call(FaultSpec{}, [&] { exists = v2ns::engine_library::exists(target); });
        gate_log.str(oe.threw ? "lib exists threw:" + oe.exc : (exists ? "lib exists" : "lib absent"));
        if (oe.threw || exists != d2_present)
            report("C13", std::string("C13|engine_library.exists|") + (d2_present ? "false-where-present" : "true-where-absent"),
                   "engine_library::exists " + (oe.threw ? "threw " + oe.exc : std::string(exists ? "is true" : "is false")) + " for layout " + where);
        bool nf = false, unsup = false;
        eng::engine_schema loaded = static_cast<eng::engine_schema>(12345);
        Outcome o = call(FaultSpec{}, [&] {
            try
            {
                auto lib = v2ns::engine_library::load(target);
                loaded = lib.schema();
            }
            catch (const dj::database_not_found&)
            {
                nf = true;
                throw;
            }
            catch (const dj::unsupported_database&)
            {
                unsup = true;
                throw;
            }
        });
        std::string outcome = o.threw ? (nf ? "database_not_found" : unsup ? "unsupported_database" : o.exc) : "schema " + std::to_string((int)loaded);
        note("  engine_library::load -> " + outcome);
        gate_log.str("lib " + outcome);
        std::string ctx = "stored triple " + tri + ", layout " + where + ": v2::engine_library::load gave " + outcome;
        if (!d2_present)
        {
            if (!nf)
                report("C13", "C13|engine_library.load|expected-not-found", ctx + ", expected database_not_found");
        }
        else if (sup >= 0)
        {
            // this loader has no layout rule of its own: it maps the stored triple (and marker) to its schema, 1.x
            // triples included
            if (o.threw || loaded != eng::supported_schemas[(size_t)sup])
                report("C13", std::string("C13|engine_library.load|") + (o.threw ? "supported-rejected" : "misidentified"),
                       ctx + ", expected " + eng::to_string(eng::supported_schemas[(size_t)sup]));
        }
        else if (sup < 0 && !is3)
        {
            if (!unsup)
                report("C13", std::string("C13|engine_library.load|") + (o.threw ? "wrong-exception" : "unsupported-accepted"),
                       ctx + ", expected unsupported_database");
        }
        probes.hit("detect_table_entry_point");
    }
    // ---- detection only reads: no probe may create, delete or change a file
    if (g_disk.open_handles() == 0 && g_disk.image_hash(true) != image_probe)
    {
        std::string names;
        for (auto& f : g_disk.list_files())
            names += f + " ";
        report("C13", "C13|detect|files-changed",
               "loading / existence probes on layout " + where + " (triple " + tri + ") changed the stored files; now: " + names);
        // ... which is also database_exists() / loading modifying what is stored (C16), in a state only another program leaves
        report("C16", "C16|detect|files-changed",
               "database_exists / load_database / engine_library::exists / load on layout " + where + " (triple " + tri +
                   ") created, deleted or changed a stored file; now: " + names);
    }
    // ---- put the undamaged disk back and carry on
    if (g_disk.open_handles() != 0)
    {
        stop = true;
        stop_reason = "files left open after detection probe";
        return true;
    }
    g_disk.restore(img);
    if (!reload())
    {
        stop = true;
        stop_reason = "reload after restoring the image failed";
    }
    have_prev = false;
    return true;
}

}  // namespace djsim
