// Hostile caller (C15): public operations invoked with arguments in and just
// outside their nominal ranges, and on stale handles.  The oracle is only:
// every call completes or throws something derived from std::exception (the
// call bracket reports anything else), no sanitizer / libstdc++ assertion
// report (worker death, attributed by the driver), deterministic watchdogs,
// and handles to removed entities report is_valid() == false and keep their id.
#include <algorithm>
#include <climits>

#include "world.hpp"

namespace djsim
{
namespace
{
const int kIdx[] = {-1, 8, 9, 0, 7, 3, 12, 1000, INT_MAX, INT_MIN, 255, 256};
const int64_t kIds[] = {0, -1, 99999, INT64_MAX, INT64_MIN, 1, 2, 3, 1ll << 32};

GenFlags hostile_flags()
{
    GenFlags g;
    g.long_labels = true;
    g.empty_labels = true;
    g.many_slots = true;
    g.odd_grids = true;
    g.sentinel_offsets = true;
    g.big = true;
    g.nul_bytes = true;
    g.no_path = true;
    g.nonfinite = false;  // the statement quantifies over finite doubles
    return g;
}
}  // namespace

// Outcome bookkeeping shared by all hostile sub-calls.
static void tally(World& w, const std::string& what, const Outcome& o)
{
    w.note("  " + what + (o.threw ? " -> threw " + o.exc : " -> ok"));
    w.log.str(what);
    w.log.str(o.threw ? "threw:" + o.exc : "ok");
    w.gate_log.str(what);
    w.gate_log.str(o.threw ? "threw:" + o.exc : "ok");
    w.probes.hit(o.threw ? "hostile_call_threw" : "hostile_call_completed");
}

void World::hostile_finish(const std::string& op)
{
    if (!db || stop)
        return;
    // stale handles: id() unchanged, is_valid() false, copy / assign / destroy are safe.
    // Which handles are stale is known from the model, so the verdict stops with it.
    const bool judge = !model_off;
    for (auto& sl : tracks)
        if (judge && sl.h && !sl.live)
        {
            Outcome o = call(FaultSpec{}, [&] {
                dj::track copy = *sl.h;
                dj::track other = copy;
                other = *sl.h;
                if (other.id() != sl.id)
                    report("C15", "C15|track.id|" + fam() + "|stale-id-changed", "id() of a stale track handle changed");
                if (copy.is_valid())
                    report("C15", "C15|track.is_valid|" + fam() + "|stale-valid",
                           "handle to removed track " + std::to_string(sl.id) + " reports is_valid() == true");
            });
            if (o.threw)
                report("C15", "C15|track.handle|" + fam() + "|stale-handle-throws",
                       "copy / assign / id() / is_valid() on a stale track handle threw " + o.exc);
            probes.hit("stale_track_handle_checked");
        }
    for (auto& sl : crates)
        if (judge && sl.h && !sl.live)
        {
            Outcome o = call(FaultSpec{}, [&] {
                dj::crate copy = *sl.h;
                dj::crate other = copy;
                other = *sl.h;
                if (other.id() != sl.id)
                    report("C15", "C15|crate.id|" + fam() + "|stale-id-changed", "id() of a stale crate handle changed");
                if (copy.is_valid())
                    report("C15", "C15|crate.is_valid|" + fam() + "|stale-valid",
                           "handle to removed crate " + std::to_string(sl.id) + " reports is_valid() == true");
            });
            if (o.threw)
                report("C15", "C15|crate.handle|" + fam() + "|stale-handle-throws",
                       "copy / assign / id() / is_valid() on a stale crate handle threw " + o.exc);
            probes.hit("stale_crate_handle_checked");
        }
    bool purity = check(CK_PURITY);
    if (purity)
        check_purity_begin();
    FullObs cur = observe();
    if (purity)
    {
        // C16 in the states only a hostile caller reaches (members without a track row, stale handles, ...)
        check_purity_end("observe");
        g_sim_clock += 977;
        FullObs again = observe();
        check_purity_end("observe2");
        if (cur.serialize() != again.serialize())
            report("C16", "C16|observe|" + fam() + "|answers-differ", "two consecutive observations differ after " + op);
        purity_extras();
        probes.hit("purity_checked");
    }
    if (check(CK_MODEL))
        check_model(cur);
    prev = cur;
    have_prev = true;
    uint64_t h = cur.hash();
    state_hashes.insert(h);
    log.u64(h);
    (void)op;
}

void World::adopt_crate(const dj::crate& c, int64_t parent, const std::string& name)
{
    int64_t id = c.id();
    if (model.dead_crates.erase(id))
        for (auto& sl : crates)
            if (sl.id == id)
                sl.h.reset();
    for (auto& sl : crates)
        if (sl.id == id && sl.live)
            return;
    if (parent == id || !model.crates.count(parent))
        parent = 0;
    crates.push_back({c, id, true});
    model.crates[id] = {id, name, parent};
    model.issued_crates.insert(id);
    model.order[parent].push_back(id);
}

bool World::exec_hostile_op(const Step& s)
{
    if (s.op.compare(0, 2, "h_") != 0)
        return false;
    auto arg = [&](size_t i) { return i < s.a.size() ? s.a[i] : 0; };
    Rng r(s.vseed ^ 0x4057113ull);
    const GenFlags hf = hostile_flags();
    if (!db)
        return true;

    if (s.op == "h_index")
    {
        int ti = pick_live_track(arg(0));
        if (ti < 0)
            return true;
        auto& t = *tracks[ti].h;
        int idx = kIdx[(uint64_t)arg(1) % (sizeof kIdx / sizeof *kIdx)];
        auto donor = gen_snapshot(s.vseed, std::max(1, s.size), hf, ++uniq);
        std::optional<dj::hot_cue> cue;
        for (auto& c : donor.hot_cues)
            if (c)
                cue = c;
        std::optional<dj::loop> lp;
        for (auto& l : donor.loops)
            if (l)
                lp = l;
        note("h_index track " + std::to_string(tracks[ti].id) + " index " + std::to_string(idx));
        tally(*this, "hot_cue_at", call(s.fault, [&] { (void)t.hot_cue_at(idx); }));
        tally(*this, "loop_at", call(s.fault, [&] { (void)t.loop_at(idx); }));
        switch ((uint64_t)arg(2) % 4)
        {
            case 0: tally(*this, "set_hot_cue_at", call(s.fault, [&] { t.set_hot_cue_at(idx, cue); })); break;
            case 1: tally(*this, "set_hot_cue_at(none)", call(s.fault, [&] { t.set_hot_cue_at(idx, std::nullopt); })); break;
            case 2: tally(*this, "set_loop_at", call(s.fault, [&] { t.set_loop_at(idx, lp); })); break;
            default: tally(*this, "set_loop_at(none)", call(s.fault, [&] { t.set_loop_at(idx, std::nullopt); })); break;
        }
        if (idx < 0 || idx > 7)
            probes.hit("hostile_index_out_of_range");
        hostile_finish(s.op);
        return true;
    }
    if (s.op == "h_waveform")
    {
        // waveform present while sample rate and/or sample count are absent or zero
        int ti = pick_live_track(arg(0));
        if (ti < 0)
            return true;
        auto& t = *tracks[ti].h;
        note("h_waveform track " + std::to_string(tracks[ti].id));
        unsigned k = (unsigned)((uint64_t)arg(1) % 6);
        if (k == 0 || k == 2)
            tally(*this, "set_sample_rate(none)", call(FaultSpec{}, [&] { t.set_sample_rate(std::nullopt); }));
        if (k == 1 || k == 2)
            tally(*this, "set_sample_count(none)", call(FaultSpec{}, [&] { t.set_sample_count(std::nullopt); }));
        if (k == 3)
            tally(*this, "set_sample_rate(0)", call(FaultSpec{}, [&] { t.set_sample_rate(0.0); }));
        if (k == 4)
            tally(*this, "set_sample_count(0)", call(FaultSpec{}, [&] { t.set_sample_count(0ull); }));
        if (k == 5)
            tally(*this, "set_sample_rate(tiny)", call(FaultSpec{}, [&] { t.set_sample_rate(1e-9); }));
        std::vector<dj::waveform_entry> w(1 + r.below(2000));
        for (auto& e : w)
        {
            uint64_t x = r.next();
            e.low.value = (uint8_t)x;
            e.mid.value = (uint8_t)(x >> 8);
            e.high.value = (uint8_t)(x >> 16);
            e.low.opacity = e.mid.opacity = e.high.opacity = (uint8_t)(x >> 24);
        }
        tally(*this, "set_waveform", call(s.fault, [&] { t.set_waveform(w); }));
        tally(*this, "waveform", call(FaultSpec{}, [&] { (void)t.waveform(); }));
        // the bulk path with the same shape
        auto snap = gen_snapshot(s.vseed, std::max(1, s.size), hf, ++uniq);
        if (!snap.relative_path)
            snap.relative_path = "hostile/w" + std::to_string(uniq) + ".mp3";
        snap.waveform = w;
        if (k % 2 == 0)
            snap.sample_rate = std::nullopt;
        else
            snap.sample_count = std::nullopt;
        snap.hot_cues.resize(std::min<size_t>(snap.hot_cues.size(), 8));
        snap.loops.resize(std::min<size_t>(snap.loops.size(), 8));
        tally(*this, "update(waveform without rate/count)", call(FaultSpec{}, [&] { t.update(snap); }));
        probes.hit("hostile_waveform_without_rate");
        hostile_finish(s.op);
        return true;
    }
    if (s.op == "h_snapshot")
    {
        auto snap = gen_snapshot(s.vseed, std::max(1, s.size), hf, ++uniq);
        bool create = (arg(1) % 3) == 0 || pick_live_track(arg(0)) < 0;
        if (create)
        {
            std::optional<dj::track> t;
            Outcome o = call(s.fault, [&] { t = db->create_track(snap); });
            tally(*this, "create_track(hostile)", o);
            if (!o.threw && t)
            {
                int64_t id = t->id();
                if (model.dead_tracks.erase(id))
                    for (auto& sl : tracks)
                        if (sl.id == id)
                            sl.h.reset();
                tracks.push_back({t, id, true});
                model.tracks.insert(id);
                model.issued_tracks.insert(id);
            }
        }
        else
        {
            int ti = pick_live_track(arg(0));
            tally(*this, "update(hostile)", call(s.fault, [&] { tracks[ti].h->update(snap); }));
        }
        if (snap.hot_cues.size() > 8 || snap.loops.size() > 8)
            probes.hit("hostile_more_than_8_slots");
        hostile_finish(s.op);
        return true;
    }
    if (s.op == "h_lookup")
    {
        int64_t id = kIds[(uint64_t)arg(0) % (sizeof kIds / sizeof *kIds)];
        if ((arg(1) & 1) && !model.dead_tracks.empty())
            id = *model.dead_tracks.begin();
        bool track_exists = model.tracks.count(id) > 0;
        note("h_lookup id " + std::to_string(id));
        // (what a lookup of a never-issued id returns is not fixed by any listed property: on
        // 1.17.0+ the id-reservation placeholder row makes track_by_id(max+1) return a handle)
        tally(*this, "track_by_id", call(FaultSpec{}, [&] {
                  auto t = db->track_by_id(id);
                  if (t)
                  {
                      (void)t->is_valid();
                      probes.hit(track_exists ? "lookup_found_live" : "lookup_found_unissued_id");
                  }
              }));
        bool crate_exists = model.crates.count(id) > 0;
        tally(*this, "crate_by_id", call(FaultSpec{}, [&] {
                  auto c = db->crate_by_id(id);
                  if (c)
                  {
                      (void)c->is_valid();
                      probes.hit(crate_exists ? "lookup_found_live" : "lookup_found_unissued_id");
                  }
              }));
        int ci = pick_live_crate(arg(2));
        if (ci >= 0 && !track_exists)
        {
            Outcome o = call(s.fault, [&] { crates[ci].h->add_track(id); });
            tally(*this, "add_track(nonexistent id)", o);
            if (!o.threw)
                model_off = true;  // the statement does not say what the crate now contains
            probes.hit("hostile_add_nonexistent_track");
        }
        hostile_finish(s.op);
        return true;
    }
    if (s.op == "h_after")
    {
        // create_*_after with an 'after' crate from another parent, another level, removed, or the parent itself
        int pi = pick_live_crate(arg(0));
        int ai = pick_any_crate(arg(1));
        if (ai < 0)
            return true;
        std::string name = "H" + std::to_string(++uniq);
        bool root = pi < 0 || (arg(2) % 3) == 0;
        int64_t parent = root ? 0 : crates[pi].id;
        auto& after = *crates[ai].h;
        bool legit = crates[ai].live && model.crates.count(crates[ai].id) && model.crates[crates[ai].id].parent == parent;
        std::optional<dj::crate> c;
        Outcome o = call(s.fault, [&] {
            if (root)
                c = db->create_root_crate_after(name, after);
            else
                c = crates[pi].h->create_sub_crate_after(name, after);
        });
        tally(*this, std::string(root ? "create_root_crate_after" : "create_sub_crate_after") + (legit ? "" : "(foreign after)"), o);
        if (!o.threw && c)
        {
            adopt_crate(*c, parent, name);
            if (!legit)
                model_off = true;  // position (and for a removed 'after' even the parent) is undefined
            else
                free_elem[parent] = c->id();
        }
        if (!legit)
            probes.hit("hostile_after_foreign");
        hostile_finish(s.op);
        return true;
    }
    if (s.op == "h_stale_track")
    {
        int si = -1;
        {
            std::vector<int> v;
            for (size_t i = 0; i < tracks.size(); ++i)
                if (tracks[i].h && !tracks[i].live)
                    v.push_back((int)i);
            if (!v.empty())
                si = v[(uint64_t)arg(0) % v.size()];
        }
        if (si < 0)
        {
            note("h_stale_track skipped: no stale handle");
            return true;
        }
        dj::track t = *tracks[si].h;
        note("h_stale_track " + std::to_string(tracks[si].id));
        auto donor = gen_snapshot(s.vseed, std::max(1, s.size), hf, ++uniq);
        if (!donor.relative_path)
            donor.relative_path = "hostile/s" + std::to_string(uniq) + ".mp3";
        tally(*this, "stale.snapshot", call(FaultSpec{}, [&] { (void)t.snapshot(); }));
        (void)observe_track(t);  // every getter, guarded
        int first = (int)((uint64_t)arg(1) % F_COUNT);
        for (int k = 0; k < 6; ++k)
        {
            int f = (first + k * 5) % F_COUNT;
            if (f == F_FILE_BYTES)
                continue;
            tally(*this, std::string("stale.set_") + field_name(f), call(FaultSpec{}, [&] { apply_setter(t, f, 0, donor, (k & 1) != 0); }));
        }
        tally(*this, "stale.set_hot_cue_at", call(FaultSpec{}, [&] { apply_setter(t, F_HOT_CUE_AT, (int)(arg(2) % 8), donor, true); }));
        tally(*this, "stale.set_loop_at", call(FaultSpec{}, [&] { apply_setter(t, F_LOOP_AT, (int)(arg(2) % 8), donor, true); }));
        tally(*this, "stale.update", call(s.fault, [&] { t.update(donor); }));
        tally(*this, "stale.db", call(FaultSpec{}, [&] { (void)t.db().uuid(); }));
        int ci = pick_live_crate(arg(2));
        if (ci >= 0)
        {
            Outcome o = call(FaultSpec{}, [&] { crates[ci].h->add_track(t); });
            tally(*this, "add_track(stale track)", o);
            if (!o.threw)
                model_off = true;
            tally(*this, "crate.remove_track(stale track)", call(FaultSpec{}, [&] { crates[ci].h->remove_track(t); }));
        }
        tally(*this, "remove_track(stale track)", call(FaultSpec{}, [&] { db->remove_track(t); }));
        probes.hit("stale_track_used");
        hostile_finish(s.op);
        return true;
    }
    if (s.op == "h_stale_crate")
    {
        int si = -1;
        {
            std::vector<int> v;
            for (size_t i = 0; i < crates.size(); ++i)
                if (crates[i].h && !crates[i].live)
                    v.push_back((int)i);
            if (!v.empty())
                si = v[(uint64_t)arg(0) % v.size()];
        }
        if (si < 0)
        {
            note("h_stale_crate skipped: no stale handle");
            return true;
        }
        dj::crate c = *crates[si].h;
        note("h_stale_crate " + std::to_string(crates[si].id));
        (void)observe_crate(c);  // name / parent / children / descendants / tracks, guarded
        tally(*this, "stale.sub_crate_by_name", call(FaultSpec{}, [&] { (void)c.sub_crate_by_name("A"); }));
        tally(*this, "stale.db", call(FaultSpec{}, [&] { (void)c.db().uuid(); }));
        tally(*this, "stale.set_name", call(FaultSpec{}, [&] { c.set_name("Stale" + std::to_string(uniq)); }));
        int li = pick_live_crate(arg(1));
        {
            Outcome o = call(s.fault, [&] { c.set_parent(li >= 0 ? std::optional<dj::crate>(*crates[li].h) : std::nullopt); });
            tally(*this, "stale.set_parent", o);
        }
        int ti = pick_live_track(arg(2));
        if (ti >= 0)
        {
            tally(*this, "stale.add_track", call(FaultSpec{}, [&] { c.add_track(*tracks[ti].h); }));
            tally(*this, "stale.add_track(id)", call(FaultSpec{}, [&] { c.add_track(tracks[ti].id); }));
            tally(*this, "stale.remove_track", call(FaultSpec{}, [&] { c.remove_track(*tracks[ti].h); }));
        }
        tally(*this, "stale.clear_tracks", call(FaultSpec{}, [&] { c.clear_tracks(); }));
        {
            std::optional<dj::crate> n;
            std::string name = "HS" + std::to_string(++uniq);
            Outcome o = call(FaultSpec{}, [&] { n = c.create_sub_crate(name); });
            tally(*this, "stale.create_sub_crate", o);
            if (!o.threw && n)
            {
                adopt_crate(*n, crates[si].id, name);
                model_off = true;  // a crate under a removed parent: outside the forest model
            }
        }
        if (li >= 0)
        {
            Outcome o = call(FaultSpec{}, [&] { crates[li].h->set_parent(c); });
            tally(*this, "live.set_parent(stale)", o);
            if (!o.threw)
                model_off = true;
        }
        tally(*this, "remove_crate(stale)", call(FaultSpec{}, [&] { db->remove_crate(c); }));
        probes.hit("stale_crate_used");
        hostile_finish(s.op);
        return true;
    }
    if (s.op == "h_names")
    {
        // names: empty, ';', embedded NUL, invalid UTF-8, very long
        static const std::string names[] = {std::string(), ";", "a;b", std::string("n\0x", 3), "\xff\xfe\xc3", std::string(70000, 'n'),
                                            std::string(1, '\0'), "ok"};
        const std::string& name = names[(uint64_t)arg(0) % 8];
        int ci = pick_live_crate(arg(1));
        std::optional<dj::crate> c;
        bool bad = name.empty() || name.find(';') != std::string::npos;
        unsigned k = (unsigned)((uint64_t)arg(2) % 3);
        if (k == 0 || ci < 0)
        {
            Outcome o = call(s.fault, [&] { c = db->create_root_crate(name); });
            tally(*this, "create_root_crate(odd name)", o);
            if (!o.threw && c)
            {
                adopt_crate(*c, 0, name);
                free_elem[0] = c->id();
                if (bad)
                    model_off = true;
            }
        }
        else if (k == 1)
        {
            Outcome o = call(s.fault, [&] { c = crates[ci].h->create_sub_crate(name); });
            tally(*this, "create_sub_crate(odd name)", o);
            if (!o.threw && c)
            {
                adopt_crate(*c, crates[ci].id, name);
                free_elem[crates[ci].id] = c->id();
                if (bad)
                    model_off = true;
            }
        }
        else
        {
            Outcome o = call(s.fault, [&] { crates[ci].h->set_name(name); });
            tally(*this, "set_name(odd name)", o);
            if (!o.threw)
            {
                model.crates[crates[ci].id].name = name;
                if (bad)
                    model_off = true;
            }
        }
        tally(*this, "crates_by_name(odd name)", call(FaultSpec{}, [&] { (void)db->crates_by_name(name); }));
        tally(*this, "root_crate_by_name(odd name)", call(FaultSpec{}, [&] { (void)db->root_crate_by_name(name); }));
        probes.hit("hostile_names");
        hostile_finish(s.op);
        return true;
    }
    note("unknown hostile op " + s.op);
    return true;
}

}  // namespace djsim
