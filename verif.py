#!/usr/bin/env python3
"""Driver for djsim: build | check <id> | replay <file> | determinism | sweep.

Everything is rebuilt from /repo's current working tree (ninja + depfiles), so
an edited source under /repo is picked up by every check.
"""
import json
import os
import re
import subprocess
import sys
import time

VERIF = os.path.dirname(os.path.abspath(__file__))
REPO = os.environ.get("DJSIM_REPO", "/repo")
BUILD = os.path.join(VERIF, "_build")
SIM = os.path.join(VERIF, "sim")

WRAPS = [
    "stat", "mkdir", "sqlite3_step", "sqlite3_prepare_v2", "sqlite3_close_v2",
    "inflate", "_ZNSt6chrono3_V212system_clock3nowEv",
    "_ZN9djinterop4util20generate_random_uuidB5cxx11Ev",
    "_ZN9djinterop4util21generate_random_int64Ev",
]

VARIANTS = {
    "fast": {"cxx": "g++", "flags": "-O1 -g1", "ld": ""},
    "san": {
        "cxx": "g++",
        "flags": "-O1 -g -fsanitize=address,undefined -fno-sanitize-recover=all "
                 "-fno-omit-frame-pointer -D_GLIBCXX_ASSERTIONS",
        "ld": "-fsanitize=address,undefined",
    },
}


def lib_sources():
    text = open(os.path.join(REPO, "CMakeLists.txt")).read()
    m = re.search(r"add_library\(\s*DjInterop\s+(.*?)\)", text, re.S)
    if not m:
        raise SystemExit("cannot find add_library(DjInterop ...) in CMakeLists.txt")
    return [s for s in m.group(1).split() if s.endswith(".cpp")]


def gen_config(outdir):
    src = open(os.path.join(REPO, "include/djinterop/config.hpp.in")).read()
    src = re.sub(r"#cmakedefine\s+(\w+)", r"/* #undef \1 */", src)
    path = os.path.join(outdir, "include", "djinterop")
    os.makedirs(path, exist_ok=True)
    target = os.path.join(path, "config.hpp")
    if not os.path.exists(target) or open(target).read() != src:
        open(target, "w").write(src)


def write_ninja(variant):
    v = VARIANTS[variant]
    out = os.path.join(BUILD, variant)
    os.makedirs(out, exist_ok=True)
    gen_config(os.path.join(BUILD, "gen"))
    inc = (f"-I{BUILD}/gen/include -I{REPO}/include -I{REPO}/ext/sqlite_modern_cpp "
           f"-I{REPO}/ext/date -I{REPO}/src")
    lines = [
        f"cxx = {v['cxx']}",
        f"libflags = -std=c++17 -DDJINTEROP_SOURCE -DNDEBUG -fvisibility=hidden -w {v['flags']} {inc}",
        f"simflags = -std=c++17 -DDJINTEROP_SOURCE -DNDEBUG -Wall -Wno-unused-function {v['flags']} {inc} -I{SIM}",
        "rule cc",
        "  command = $cxx $flags -MMD -MF $out.d -c $in -o $out",
        "  depfile = $out.d",
        "  deps = gcc",
        "  description = CXX $out",
        "rule link",
        "  command = $cxx $in -o $out $ldflags",
        "  description = LINK $out",
    ]
    objs = []
    for s in lib_sources():
        o = os.path.join(out, "lib", s.replace("/", "_") + ".o")
        lines.append(f"build {o}: cc {REPO}/{s}")
        lines.append("  flags = $libflags")
        objs.append(o)
    for s in sorted(os.listdir(SIM)):
        if s.endswith(".cpp"):
            o = os.path.join(out, "sim", s + ".o")
            lines.append(f"build {o}: cc {SIM}/{s}")
            lines.append("  flags = $simflags")
            objs.append(o)
    wraps = " ".join(f"-Wl,--wrap={w}" for w in WRAPS)
    lines.append(f"build {out}/djsim: link {' '.join(objs)}")
    lines.append(f"  ldflags = {v['ld']} {wraps} -lsqlite3 -lz")
    lines.append(f"default {out}/djsim")
    path = os.path.join(out, "build.ninja")
    text = "\n".join(lines) + "\n"
    if not os.path.exists(path) or open(path).read() != text:
        open(path, "w").write(text)
    return out


def build(variants=("fast", "san"), quiet=True):
    t0 = time.time()
    for variant in variants:
        out = write_ninja(variant)
        r = subprocess.run(["ninja", "-C", out, "-j", str(os.cpu_count() or 8)],
                           stdout=subprocess.PIPE, stderr=subprocess.STDOUT, text=True)
        if r.returncode != 0:
            sys.stdout.write(r.stdout[-8000:])
            print(f"BUILD FAILED variant={variant}")
            sys.exit(2)
        if not quiet:
            sys.stdout.write(r.stdout[-2000:])
    return time.time() - t0


def binary(variant):
    return os.path.join(BUILD, variant, "djsim")


def main():
    args = sys.argv[1:]
    if not args:
        print(__doc__)
        return 2
    cmd = args[0]
    if cmd == "build":
        variants = args[1:] or ["fast", "san"]
        dt = build(variants, quiet=False)
        print(f"build ok ({dt:.1f}s): {', '.join(variants)}")
        return 0
    try:
        import driver  # noqa: deferred so that 'build' works standalone
    except ImportError as e:
        print("driver module missing:", e)
        return 2
    return driver.main(args)


if __name__ == "__main__":
    sys.path.insert(0, VERIF)
    sys.exit(main())
