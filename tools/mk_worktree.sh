#!/bin/bash
# Create a scratch worktree of /repo HEAD under /tmp/wt/<name> with a configured and built _build (for sub-agents).
# usage: tools/mk_worktree.sh <name>...
for n in "$@"; do
  d=/tmp/wt/$n
  [ -d $d ] && { git -C /repo worktree remove --force $d; }
  mkdir -p /tmp/wt
  git -C /repo worktree add -q --detach $d HEAD || exit 1
  cmake -G Ninja -S $d -B $d/_build -DCMAKE_BUILD_TYPE=RelWithDebInfo -DSYSTEM_SQLITE=ON -DBUILD_TESTING=ON > $d/_build.cfg.log 2>&1 || { echo "configure failed $n"; exit 1; }
  cmake --build $d/_build -j16 > $d/_build.log 2>&1 || { echo "build failed $n"; exit 1; }
  echo "worktree $d ready"
done
