#!/usr/bin/env python3
"""Regenerate MANIFEST.json 'checks' from driver.PROPS and the texts below."""
import json, os, sys
sys.path.insert(0, os.path.join(os.path.dirname(__file__), ".."))
import driver

TEXT = {
 "C01": ("Seeded simulated histories of snapshot writes (create_track, update, rewrite of the read-back snapshot, setters, reload) on a simulated disk across all 18 schemas; each accepted write is checked field by field against the statement's normalisation table and for being a fixed point; each rejected write for leaving the observation unchanged. Exploration: sampled histories and values, not exhaustive.",
         "expectation table for 'derived' fields (1.x bpm, 2.x overview waveform) accepts exactly the documented alternatives; oracle compares doubles by bit pattern"),
 "C06": ("Seeded setter/getter histories interleaved over several tracks; after every step the full observation of all tracks is diffed against the previous one (only the set field of the target may change), the set value is compared under C01's normalisation, and every getter is compared with the corresponding snapshot field.",
         "a setter that throws and leaves everything unchanged is accepted as a rejection"),
 "C07": ("Seeded crate-operation histories against a forest reference model; crates(), parent(), children(), descendants(), root_crates(), by-id and by-name lookups, id stability, invalid-name rejection, removed-crate invisibility and cycle rejection are checked after every step on all 18 schemas.",
         "forests are kept small (<= ~8 crates); names come from a small alphabet plus invalid/odd shapes"),
 "C08": ("Seeded membership histories with an id-skew prologue (track ids, crate ids and membership-row ids diverge) against a relation model; crate.tracks(), database::tracks(), track_by_id and (1.x) containing_crates() checked after every step.",
         "2.x containing_crates() is documented as unimplemented and skipped"),
 "C09": ("2.x-only seeded histories of positioned/un-positioned creates, re-parenting, renames, removals and playlist-entity add/remove/clear against a sequence model: every listing must be a permutation of the model's members, positioned creates land right after their anchor, untouched items keep their relative order, entries keep insertion order.",
         "where the statement fixes no position (un-positioned create, re-parent) only membership and preservation of the others' order are required"),
 "C10": ("Any workload on an on-disk library (SimDisk) with close — every handle released in a seeded order, optional clock jump — and load_database at seeded prefixes and at the end: full public-API observation before close and after reload must be identical, loaded_schema must equal the created schema, database_exists/create_or_load must report existing vs missing libraries correctly.",
         "clean close only (no power-loss model: no listed property quantifies over crash points)"),
 "C02": ("Two parties on shared simulated storage: after every mutating step an auditor with its own SQLite connection fetches the raw blob bytes of every track and decodes them with an independent codec (refcodec); the frame and every logical field must agree with what the library itself reports. The converse direction (independent encoder writes, library reads) is exercised by the foreign-writer profile.",
         "common-mode risk: refcodec and the library were read from the same description; agreement pins today's format"),
 "C11": ("After every prefix of the workloads an independent reader checks the raw database: PRAGMA integrity_check and foreign_key_check clean, verify() passes, every stored performance blob decodes, 1.x Crate.path / CrateParentList / CrateHierarchy all describe the model forest, 2.x nextListId / nextEntityId chains are single acyclic lists covering all rows, filename / file-extension metadata / fileType / origin columns agree with path and UUID, no orphan rows.",
         "on-disk libraries only (the auditor needs a file to open); audit right after an injected fault is skipped"),
 "C03": ("Generated blob values (doubles of every class compared by bit pattern, int edges, labels of 0..300 arbitrary bytes, 0..12 entries, large grids/waveforms, arbitrary extra_data) written through the 2.x table API and the 1.x/2.x snapshot and setter paths onto the simulated disk and read back: the value must be equal, or the write must have been rejected with nothing stored ('stored but decodes differently' and 'stored but no longer decodable' are the violation classes).",
         "1.x codec values unreachable through the public API are not generated (stated gap)"),
 "C18": ("2.x table-API histories against a row model: get() after add()/update() equals the written row except id, last-edit time and origin fix-up; every per-column getter equals the row field; every per-column setter changes that column only (all other columns of all rows re-read and compared after each step); accessors and remove() naming a nonexistent row must throw; playlist/entity listings follow a sequence model.",
         "row generator gives every same-typed pair of columns different values so that a transposed bind cannot hide"),
 "C14": ("Fault enumeration inside each mutating call: for sampled (pre-state, call) pairs on an on-disk library the call is re-executed from the same restored disk image once per fault position - every SQL statement failing with BUSY/ERROR/READONLY (exhaustive), every VFS call of the call addressed as (method, file, ordinal), every VM tick (cancellation), seeded SQLite allocation failures, and the second party taking the write lock at every statement boundary (real SQLITE_BUSY) - and the full public observation afterwards must equal the pre-state (or, for real-path faults that SQLite reports after its commit point, exactly the fault-free post-state); errors must surface as std::exception and the call must succeed when retried.",
         "inner loop exhaustive for F1 and within caps (256) for F2/F3, outer loop sampled; F1 is a stub-level fault at the statement boundary, F2-F4 go through SQLite's real pager/journal error paths on the simulated disk"),
 "C04": ("Two parties on one simulated disk: a foreign writer with its own SQLite connection stores 2.x performance blobs encoded by an independent codec in shapes the library never produces (0..12 entries, flag bytes other than 0/1, non-zero unknown fields, default != adjusted grid, trailing bytes, NaN payloads) or mutates stored payloads; the library then performs table-API get->update of the unchanged row, per-column blob get->set and every public single-field setter; before and after each write an independent reader inflates the five stored blobs and compares them field by field: everything the operation does not own must be byte-identical (the main-cue-adjusted byte may be normalised to 1), and a rejected write must change nothing.",
         "set_loops / set_waveform replace their whole blob and own it; update(snapshot) is not a single-field change and is not judged"),
 "C05": ("Storage faults as the source of arbitrary bytes: in a library with fully analysed tracks a second SQLite client damages one stored blob cell at a time (truncation at every length, bit flips in the compressed stream, payload edits re-deflated, every embedded count/length set to -1/0/1/fit/fit+1/2^31/2^61/2^63-1/INT64_MIN, rewritten length prefix, trailing garbage, missing end marker, tiny and NULL cells, truncated payload in an intact frame, lost and torn ranges) or flips bits in raw database pages while the library is closed; afterwards every reader runs (snapshot, all getters, read-modify-write setters, track_table::get, per-column blob getters, the public from_blob decoders on the same bytes) under ASan+UBSan+libstdc++ assertions with deterministic termination detectors (inflate progress, VM ticks). Any sanitizer report, signal, foreign exception or non-termination is a violation; all 11 decoders (6 x 1.x through the track API, 5 x 2.x directly and through both APIs) are reached.",
         "seeded structured corruption of real stored blobs, not coverage-guided fuzzing and not exhaustive over short inputs (stated in DESIGN section 7)"),
 "C13": ("Close / second-party rewrite / reload histories on the simulated disk: the stored version triple is set to every supported value, its neighbours, the surrounding box and far-out values; the documented 1.18.0 variant marker is flipped; the directory is given each layout (legacy, Database2, none, both, missing, file moved across layouts). load_database must return exactly the schema the triple (and marker) name, throw unsupported_database for every other triple, throw database_not_found for no/both/missing layouts, and database_exists must agree; no triple may ever load as a different supported schema.",
         "a thin use of the simulator (decision table over second-party disk states); 3.0.0 and cross-layout triples are outside the statement and accept the mapped schema or an exception"),
 "C17": ("Second-party schema drift between close and reload: for libraries of every supported schema (music and, on 1.x, performance database) exactly one structural edit is applied while the library is closed - drop / add / rename of a table, view, column or index, change of a column's declared type, nullability, default or primary-key membership, change of an index's uniqueness or columns - and after reload verify() must report it; before every edit verify() must accept the library in the state the preceding history reached. Only edits that are well-formed and visible through sqlite_master / table_info / index_list / index_info are judged.",
         "a thin use of the simulator (second party + disk); any exception from verify()/load counts as reported, only silent acceptance is a violation"),
 "C15": ("Hostile-caller simulated histories on every supported schema with the library built with AddressSanitizer, UndefinedBehaviorSanitizer and libstdc++ assertions: ordinary operations are interleaved with out-of-range cue/loop indices, over-long cue lists, NUL / invalid-UTF-8 / 300-byte labels, waveforms without sample rate or count, ids of nonexistent or removed entities, create_*_after with crates from elsewhere in the tree, odd crate names and every member function of stale track and crate handles. Each call must return or throw a std::exception; any sanitizer report, signal, assertion, watchdog (VM ticks, inflate progress, wall clock) or foreign exception is a violation attributed to the flushed run; stale handles must keep their id and report is_valid() == false.",
         "finite doubles only (as the statement quantifies); C++ operator new failure is not injected"),
 "C16": ("In every state reached by the workloads a monitor brackets the complete block of observing calls (every getter, snapshot(), listings, lookups) with SimDisk write/truncate/delete counters for non-temporary files, sqlite3_total_changes of the library's connections and the image hash; the block is repeated with the simulated clock moved and must give identical answers.",
         "observation right after an injected fault is exempt (hot-journal recovery legitimately writes)"),
}
TECH = "deterministic simulation with fault injection: seeded plan search over simulated histories, reference-model and differential oracles, ddmin-minimised exact replay"

def main():
    path = os.path.join(driver.VERIF, "MANIFEST.json")
    m = json.load(open(path))
    checks = []
    for pid in sorted(driver.PROPS):
        cfg = driver.PROPS[pid]
        text, note = TEXT[pid]
        checks.append({
            "property_id": pid,
            "quick_cmd": f"python3 verif.py check {pid} --tier quick",
            "thorough_cmd": f"python3 verif.py check {pid} --tier thorough",
            "evidence_file": f"evidence/{pid}.json",
            "replay_cmd_template": "python3 verif.py replay {path}",
            "engine": "djsim",
            "level_claimed": {"category": cfg["level"], "text": text, "design_ref": f"DESIGN.md section 4 ({pid})"},
            "level_note": note + "; trusted base: SimDisk VFS, link-time taps, reference model and oracles in /verif/sim; system SQLite and zlib run real code",
            "technique": TECH,
        })
    m["checks"] = checks
    for e in m.get("engines", []):
        if e["name"] == "djsim":
            e["serves_properties"] = sorted(driver.PROPS)
    json.dump(m, open(path, "w"), indent=1)
    print("wrote", len(checks), "checks")

main()
