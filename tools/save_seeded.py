#!/usr/bin/env python3
"""Record a confirmed seeded mutation under /verif/seeded/<id>/.
usage: save_seeded.py <id> <outdir> <round-note> <change> <needs> <caught,comma> <classes> <history> [checks-run]"""
import sys, os, json, shutil
id_, out, rnd, change, needs, caught, classes, hist = sys.argv[1:9]
ran = sys.argv[9] if len(sys.argv) > 9 else caught.replace(',', ' ')
d = os.path.join(os.path.dirname(__file__), '..', 'seeded', id_)
os.makedirs(d, exist_ok=True)
for f in ('patch.diff', 'demo.cpp', 'build.sh', 'notes.md'):
    shutil.copy(os.path.join(out, f), os.path.join(d, f))
confirm = open(os.path.join(out, 'confirm.log')).read().strip().splitlines()[-1]
prop = id_[:3]
meta = {
    "id": id_, "property": prop, "change": change, "needs_to_manifest": needs,
    "origin": "fresh sub-agent given only the property text and a scratch worktree of /repo (%s)" % rnd,
    "confirmed_by_me": {
        "how": "tools/confirm_mutation.sh in the scratch worktree: git apply patch.diff, cmake --build, full ctest (2553 cases in 9 executables), build+run demo (must fail), revert, rebuild, run demo (must pass)",
        "result": confirm},
    "checks_run": {
        "how": "tools/try_mutation.sh patch.diff %s (git -C /repo apply, quick tier, git checkout -- . afterwards)" % ran,
        "caught_by_quick": [c for c in caught.split(',') if c],
        "violation_classes": classes, "history": hist}}
json.dump(meta, open(os.path.join(d, 'meta.json'), 'w'), indent=1, ensure_ascii=False)
print("saved", d)
