#!/bin/bash
# Confirm a sub-agent's mutation in its scratch worktree and copy it into seeded/<id>/.
# usage: tools/ingest.sh <worktree> <k> <id>
wt=$1; k=$2; id=$3
cd "$(dirname "$0")/.."
res=$(bash tools/confirm_mutation.sh $wt $wt/out/$k 2>&1 | tail -1)
echo "$id: $res"
case "$res" in *"demo_with_rc=0"*|*fail*|*failed*|*not-apply*) echo "$id NOT CONFIRMED"; exit 1;; esac
echo "$res" | grep -q "demo_without_rc=0" || { echo "$id NOT CONFIRMED"; exit 1; }
mkdir -p seeded/$id
cp $wt/out/$k/patch.diff $wt/out/$k/demo.cpp $wt/out/$k/build.sh $wt/out/$k/notes.md seeded/$id/ 2>/dev/null
echo "$res" > seeded/$id/confirm.txt
