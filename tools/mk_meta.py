#!/usr/bin/env python3
"""Write seeded/<id>/meta.json.  usage: mk_meta.py <id> <property> <change> <needs> <caught_by comma list> <classes> [history]"""
import json, sys, os
id_, prop, change, needs, caught, classes = sys.argv[1:7]
hist = sys.argv[7] if len(sys.argv) > 7 else "caught as delivered"
d = os.path.join(os.path.dirname(os.path.abspath(__file__)), "..", "seeded", id_)
conf = open(os.path.join(d, "confirm.txt")).read().strip()
meta = {
 "id": id_, "property": prop, "change": change, "needs_to_manifest": needs,
 "origin": "fresh sub-agent given only the property text and a scratch worktree of /repo (fifth round: the ideas of earlier rounds excluded by a one-line description each)",
 "confirmed_by_me": {"how": "tools/confirm_mutation.sh in the scratch worktree: git apply patch.diff, cmake --build, full ctest (2553 cases in 9 executables), build+run demo (must fail), revert, rebuild, run demo (must pass)", "result": conf},
 "checks_run": {"how": "tools/try_mutation.sh patch.diff <ids> (git -C /repo apply, quick tier, git checkout -- . and rebuild afterwards)",
                "caught_by_quick": [c for c in caught.split(",") if c], "violation_classes": classes, "history": hist}}
json.dump(meta, open(os.path.join(d, "meta.json"), "w"), indent=1)
print("wrote", id_)
