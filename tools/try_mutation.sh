#!/bin/bash
# Apply a seeded mutation to /repo, run the named checks (quick tier unless TIER is set), undo it.
# usage: tools/try_mutation.sh <patch.diff> <property-id>...
patch=$1; shift
cd "$(dirname "$0")/.."
if [ -n "$(git -C /repo status --porcelain --untracked-files=no)" ]; then echo "/repo is dirty"; exit 2; fi
git -C /repo apply "$patch" || { echo "patch does not apply"; exit 2; }
# the binaries in _build are rebuilt from the reverted tree too: a later manual sweep must not run mutated code
trap 'git -C /repo checkout -- . ; python3 verif.py build fast san >/dev/null 2>&1; echo "[reverted]"' EXIT
for id in "$@"; do
  s=$(date +%s)
  VERIF_EVIDENCE_DIR=/tmp/djsim_mut_evidence VERIF_REPLAY_DIR=/tmp/djsim_mut_replays python3 verif.py check $id --tier ${TIER:-quick} > /tmp/djsim_mut_$id.log 2>&1
  rc=$?
  echo "$id rc=$rc $(( $(date +%s) - s ))s"; grep -E "^VIOLATION|^  class|^NONDET|^MACHINERY" /tmp/djsim_mut_$id.log | cut -c1-400 | head -12
done
