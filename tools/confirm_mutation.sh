#!/bin/bash
# Independently confirm a seeded mutation in a scratch worktree:
#   applies, builds, full ctest passes, demo FAILS with it and PASSES without it.
# usage: tools/confirm_mutation.sh <worktree> <outdir>     (outdir has patch.diff, demo.cpp, build.sh)
wt=$1; out=$2
log=$out/confirm.log; : > $log
say() { echo "$@" | tee -a $log; }
cd $wt || exit 2
git checkout -q -- . ; 
git apply $out/patch.diff || { say "CONFIRM patch-does-not-apply"; exit 1; }
cmake --build _build -j8 >> $log 2>&1 || { say "CONFIRM build-failed"; git checkout -q -- .; exit 1; }
ctest --test-dir _build -j8 --timeout 900 2>&1 | tail -4 >> $log
grep -q "100% tests passed" $log || { say "CONFIRM tests-fail-with-mutation"; git checkout -q -- .; exit 1; }
( cd $out && bash ./build.sh ) >> $log 2>&1
( cd $out && ./demo ) > $out/demo_with.txt 2>&1; rc_with=$?
git checkout -q -- .
cmake --build _build -j8 >> $log 2>&1
( cd $out && bash ./build.sh ) >> $log 2>&1
( cd $out && ./demo ) > $out/demo_without.txt 2>&1; rc_without=$?
say "CONFIRM tests=pass demo_with_rc=$rc_with demo_without_rc=$rc_without"
[ $rc_with -ne 0 ] && [ $rc_without -eq 0 ]
