#!/usr/bin/env python3
"""Summarise djsim sweep output files: violation class keys with counts."""
import sys, json, collections
c = collections.Counter(); ex = {}; runs = 0; firstrun = {}
for fn in sys.argv[1:]:
    for l in open(fn, errors='replace'):
        if not l.startswith('RESULT '): continue
        r = json.loads(l[7:]); runs += 1
        for v in r.get('viols', []):
            c[v['key']] += 1
            ex.setdefault(v['key'], v['detail'][:150])
            firstrun.setdefault(v['key'], r.get('run'))
print('runs', runs)
for k, n in sorted(c.items()):
    print(f"{n:5d} {k}  [run {firstrun[k]}] :: {ex[k]}")
