#!/bin/bash
# Run every claimed check's quick (or given tier) command in sequence; summary at the end.
tier=${1:-quick}
cd "$(dirname "$0")/.."
ids=$(python3 -c "import json;print(' '.join(c['property_id'] for c in json.load(open('MANIFEST.json'))['checks']))")
for id in $ids; do
  s=$(date +%s)
  python3 verif.py check $id --tier $tier > /tmp/djsim_check_$id.log 2>&1
  rc=$?
  echo "$id rc=$rc $(( $(date +%s) - s ))s $(grep -c '^VIOLATION' /tmp/djsim_check_$id.log) violations $(grep -c '^KNOWN-FINDING' /tmp/djsim_check_$id.log) known"
done
