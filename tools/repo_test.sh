#!/bin/sh
# Build /repo's own CMake tree and run its pinned test suite (guard off: there are no hooks).
set -e
cmake --build /repo/_build -j16 2>&1 | grep -E "error|FAILED|warning: unused" | head -20 || true
ctest --test-dir /repo/_build -j8 --timeout 900 2>&1 | tail -4
