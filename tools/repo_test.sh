#!/bin/bash
# Build /repo's own CMake tree and run its pinned test suite (guard off: there are no hooks).
set -o pipefail
cmake --build /repo/_build -j16 2>&1 | grep -E "error|FAILED" | head -20
ctest --test-dir /repo/_build -j8 --timeout 900 2>&1 | tail -6
rc=${PIPESTATUS[0]}
exit $rc
